package main

import (
	"fmt"
	"go/constant"
	"go/token"
	"go/types"
	"strings"

	"golang.org/x/tools/go/ssa"
)

func init() {
	register(&propSpec{
		ID: "C06",
		Explanation: "Decides structural necessary conditions of transaction creation in wallet: (R1) in findEligibleOutputs the single append to the eligible list is control-dependent on ALL filters " +
			"(caller filter, confirmed(minconf, output.Height, tip.Height), coinbase => confirmed(CoinbaseMaturity, ...), not user-locked, one address, requested key scope, requested account), the height arguments are the plain fields (no off-by-one arithmetic), " +
			"confirms() has the canonical form tip-height+1 (0 when unconfirmed), and the candidates are Store.UnspentOutputs (which carries the lease/unconfirmed-spend exclusions, C01-R1); " +
			"(R2) coin selection is serialised: txToOutputs is called only from the single txCreator goroutine; (R3) explicitly selected outpoints are looked up in the eligible set, a miss is an error, and a hit is consumed so it cannot be selected twice; " +
			"(R4) every non-dry-run, non-watch-only success path signs (AddAllInputScripts) and then validates (validateMsgTx), which runs the script engine with the standard verify flags for every input; " +
			"(R5) published transactions are recorded before broadcast and never forgotten while the backend holds them (shared with C20 R1-R3). NOT decided: eligibility in a concrete wallet state, signature validity, FundPsbt with caller-supplied inputs.",
		Assumptions: []string{"call graph over-approximates callees", "comparison forms are normalised linear forms over parameters and fields"},
		Run:         runC06,
	})
}

func isPlainAtom(l Lin, want string) bool {
	return l.Konst == 0 && len(l.Coef) == 1 && l.Coef[want] == 1
}

func runC06(c *Ctx) {
	p := c.P
	feo := walletFn(c, "C06-R1", "findEligibleOutputs")
	if feo != nil {
		// the append site(s)
		var appends []*ssa.Call
		for _, b := range feo.Blocks {
			for _, ins := range b.Instrs {
				if call, ok := ins.(*ssa.Call); ok {
					if bi, ok := call.Call.Value.(*ssa.Builtin); ok && bi.Name() == "append" {
						appends = append(appends, call)
					}
				}
			}
		}
		c.Floor("C06-R1", "append sites in findEligibleOutputs", len(appends), 1)
		minconfIdx, accountIdx, scopeIdx, filterIdx := -1, -1, -1, -1
		for i, prm := range feo.Params {
			switch prm.Name() {
			case "minconf":
				minconfIdx = i
			case "account":
				accountIdx = i
			case "keyScope":
				scopeIdx = i
			case "allowUtxo":
				filterIdx = i
			}
		}
		// identify parameters by type/position if renamed: (w, dbtx, keyScope, account, minconf, bs, allowUtxo)
		if minconfIdx < 0 || accountIdx < 0 || scopeIdx < 0 || filterIdx < 0 {
			minconfIdx, accountIdx, scopeIdx, filterIdx = 4, 3, 2, 6
		}
		// v is findEligibleOutputs' parameter #idx — directly, or as the parameter of a predicate part it was handed to
		// (resolved through the frames set up while that part is analysed)
		var isFeoParam func(v ssa.Value, idx int) bool
		isFeoParam = func(v ssa.Value, idx int) bool {
			for hops := 0; hops < 4; hops++ {
				prm, ok := stripConv(v).(*ssa.Parameter)
				if !ok {
					return false
				}
				if prm.Parent() == feo {
					return paramIndex(feo, prm) == idx
				}
				found := false
				for k := len(p.linFrames) - 1; k >= 0; k-- {
					if p.linFrames[k].fn == prm.Parent() {
						if pi := paramIndex(prm.Parent(), prm); pi >= 0 && pi < len(p.linFrames[k].args) {
							v = p.linFrames[k].args[pi]
							found = true
						}
						break
					}
				}
				if !found {
					return false
				}
			}
			return false
		}
		confirmedCall := func(v ssa.Value) (*ssa.Call, bool) {
			call, ok := v.(*ssa.Call)
			if !ok || calleeShort(&call.Call) != "confirmed" || len(call.Call.Args) != 3 {
				return nil, false
			}
			return call, true
		}
		heightsPlain := func(call *ssa.Call) bool {
			return isPlainAtom(p.linearize(call.Call.Args[1], 0), "field:Height") && isPlainAtom(p.linearize(call.Call.Args[2], 0), "field:Height") &&
				heightOwner(call.Call.Args[1]) == "Credit" && heightOwner(call.Call.Args[2]) == "BlockStamp"
		}
		type filt struct {
			name, detail string
			holds        func(cond ssa.Value, taken bool) bool // cond having the value taken establishes the filter
		}
		filters := []filt{
			{"minconf", "an output with fewer than the requested confirmations (confirmed(minconf, output.Height, tip.Height) false) can be selected", func(cond ssa.Value, taken bool) bool {
				f := condFactOf(cond, taken)
				if f == nil || f.Kind != "true" {
					return false
				}
				call, ok := confirmedCall(f.V)
				return ok && isPlainAtom(p.linearize(call.Call.Args[0], 0), fmt.Sprintf("param#%d", minconfIdx)) && heightsPlain(call)
			}},
			{"coinbase-maturity", "an immature coinbase output can be selected (coinbase => confirmed(CoinbaseMaturity, output.Height, tip.Height) with the plain heights)", func(cond ssa.Value, taken bool) bool {
				f := condFactOf(cond, taken)
				if f == nil {
					return false
				}
				if _, fld, _, ok := fieldOf(f.V); ok && fld == "FromCoinBase" && f.Kind == "false" {
					return true
				}
				if f.Kind != "true" {
					return false
				}
				call, ok := confirmedCall(f.V)
				return ok && isPlainAtom(p.linearize(call.Call.Args[0], 0), "field:CoinbaseMaturity") && heightsPlain(call)
			}},
			{"not-user-locked", "an outpoint locked by the user (LockedOutpoint) can be selected", func(cond ssa.Value, taken bool) bool {
				f := condFactOf(cond, taken)
				return f != nil && f.Kind == "false" && isResultOfCall(f.V, "LockedOutpoint", -1)
			}},
			{"requested-account", "an output credited to a different account can be selected", func(cond ssa.Value, taken bool) bool {
				f, ok := p.cmpForm(cond, taken)
				if !ok || f.Rel != "==" {
					return false
				}
				_, a := f.L.Coef["call:AddrAccount#1"]
				_, b := f.L.Coef[fmt.Sprintf("param#%d", accountIdx)]
				return a && b && len(f.L.Coef) == 2 && f.L.Konst == 0
			}},
			{"requested-scope", "an output of a different key scope can be selected although a scope was requested", func(cond ssa.Value, taken bool) bool {
				f := condFactOf(cond, taken)
				if f == nil {
					return false
				}
				if isFeoParam(f.V, scopeIdx) && f.Kind == "nil" {
					return true
				}
				b, ok := f.V.(*ssa.BinOp)
				if !ok || (b.Op != token.EQL && b.Op != token.NEQ) {
					return false
				}
				if !(isResultOfCall(b.X, "Scope", -1) || isResultOfCall(b.Y, "Scope", -1)) {
					return false
				}
				return (b.Op == token.EQL) == (f.Kind == "true")
			}},
			{"caller-filter", "an output rejected by the caller-supplied filter can be selected", func(cond ssa.Value, taken bool) bool {
				f := condFactOf(cond, taken)
				if f == nil {
					return false
				}
				if isFeoParam(f.V, filterIdx) && f.Kind == "nil" {
					return true
				}
				if call, ok := f.V.(*ssa.Call); ok && f.Kind == "true" {
					if isFeoParam(call.Call.Value, filterIdx) {
						return true
					}
				}
				return false
			}},
			{"address-resolves", "an output whose address/account cannot be resolved can be selected", func(cond ssa.Value, taken bool) bool {
				f := condFactOf(cond, taken)
				return f != nil && f.Kind == "nil" && isResultOfCall(f.V, "AddrAccount", 2)
			}},
		}
		// a filter may sit in a predicate part of the loop body (`if !w.outputSpendableAt(...) { continue }`): the true edge
		// of such a call establishes every filter without which the part cannot answer true
		edgeCut := func(holds func(ssa.Value, bool) bool) func(*ssa.BasicBlock, int) bool {
			return func(from *ssa.BasicBlock, si int) bool {
				if len(from.Instrs) == 0 || len(from.Succs) != 2 {
					return false
				}
				iff, ok := from.Instrs[len(from.Instrs)-1].(*ssa.If)
				return ok && holds(iff.Cond, si == 0)
			}
		}
		establishes := func(from *ssa.BasicBlock, si int, holds func(ssa.Value, bool) bool) bool {
			f := edgeFactOf(from, si)
			if f == nil || f.Kind != "true" {
				return false
			}
			call, ok := f.V.(*ssa.Call)
			if !ok {
				return false
			}
			h := call.Call.StaticCallee()
			if h == nil || len(h.Blocks) == 0 || fnPkgPath(h) != fnPkgPath(feo) || h.Object() == nil || h.Object().Exported() ||
				h.Signature.Results().Len() != 1 || !isBoolType(h.Signature.Results().At(0).Type()) {
				return false
			}
			est := false
			p.withFrame(h, call.Call.Args, func() {
				q := &PathQuery{Fn: h, EdgeBarrier: edgeCut(holds)}
				q.Target = func(ins ssa.Instruction, via *ssa.BasicBlock) bool {
					r, isR := ins.(*ssa.Return)
					if !isR {
						return false
					}
					v := resolvePhi(r.Results[0], r.Block(), via)
					if bv, isC := constBool(v); isC {
						return bv
					}
					// `return addrAcct == account`: answers true only when the returned condition holds
					return !holds(v, true)
				}
				est = len(q.From(nil)) == 0
			})
			return est
		}
		for _, ap := range appends {
			for _, fl := range filters {
				holds, cut := fl.holds, edgeCut(fl.holds)
				ok := !reachableAvoiding(feo, nil, ap, func(from *ssa.BasicBlock, si int) bool {
					return cut(from, si) || establishes(from, si, holds)
				})
				c.Check("C06-R1", "eligible-append-guarded-by:"+fl.name, ap.Pos(), ok, fl.detail)
			}
			// candidates come from UnspentOutputs
			l := innermostLoopOf(loopsOf(feo), ap)
			okSrc := false
			if l != nil && l.OverVal != nil {
				sl := &Slicer{P: p, KeepExtract: true}
				for _, o := range sl.Origins(l.OverVal) {
					if ex, ok := o.(*ssa.Extract); ok && ex.Index == 0 {
						if call, ok := ex.Tuple.(*ssa.Call); ok && calleeShort(&call.Call) == "UnspentOutputs" {
							okSrc = true
						}
					}
				}
			}
			c.Check("C06-R1", "candidates-are-UnspentOutputs", ap.Pos(), okSrc, "the eligible list is not built from Store.UnspentOutputs (which excludes leased outputs and outputs spent by unconfirmed transactions)")
			// appended element is the candidate itself
		}
		// ... and Store.UnspentOutputs really carries those two exclusions in both of its passes (findEligibleOutputs has
		// no lease / unconfirmed-spender filter of its own): the shared spendability-pass rule, from this property's side
		checkSpendPasses(c, "C06-R1", false)
		// "spent by an unconfirmed transaction" is read from the unconfirmed-spender index: it answers truthfully only if
		// every input of every recorded unconfirmed transaction is entered there and leaves with it (shared with C01-R5)
		checkConflictRemoval(c, "C06-R1")
		// "unspent by any known confirmed transaction": confirmation marks every wallet credit the transaction spends
		runLoopCompletenessN(c, "C06-R1", []string{"updateMinedBalance"}, 1)
		// "confirmed the requested number of times" is judged from the heights the store records; they are those of the
		// current chain only if a disconnected block's transactions leave it together with the tip stamp (shared with C15-R1)
		checkCoupledRollback(c, "C06-R1")
		checkStartupWalk(c, "C06-R1")
		// ... and everything that depended on a disconnected coinbase leaves the spendable set with it: the outpoints whose
		// spenders the rollback removes are recorded with the index of the credit at hand
		checkLoopCarriedStructs(c, "C06-R1", []string{"rollback", "updateMinedBalance"})
		// "once published, no later one reuses its inputs": whatever the wallet creates is recorded
		checkEveryRelevantTxIsRecorded(c, "C06-R1")
		checkUnlockHoldSpansCreation(c, "C06-R4")
		// "no coin a known transaction already spends is offered": a re-delivered credit is not written again, and a
		// record is keyed by its transaction id (C01-R6's rules)
		c.Borrow(runC01, "C01-R6", "C06-R1", func(k string) bool {
			return strings.HasPrefix(k, "insert-guarded-by-same-store-lookup") || strings.HasPrefix(k, "record-hash-is-transaction-id")
		})
		// "not leased" is read from the lease bucket: a lease ends only by its owner, its expiry or a confirmed spend
		// (C12-R5's rules) — not when an unconfirmed spend is recorded, which can be forgotten again
		c.Borrow(runC12, "C12-R4", "C06-R1", func(k string) bool { return strings.HasPrefix(k, "lease-release-per-input") })
		c.Borrow(runC12, "C12-R5", "C06-R1", func(k string) bool {
			return strings.HasPrefix(k, "lease-released-only-by-owner-expiry-or-confirmed-spend") || strings.HasPrefix(k, "lease-bucket-writer")
		})
		// confirms(): canonical form
		if cf := walletFn(c, "C06-R1", "confirms"); cf != nil {
			okForm := true
			var forms []string
			nonzero := 0
			for _, b := range cf.Blocks {
				for _, ins := range b.Instrs {
					r, ok := ins.(*ssa.Return)
					if !ok {
						continue
					}
					l := p.linearize(r.Results[0], 0)
					forms = append(forms, l.String())
					if l.isConst() && l.Konst == 0 {
						continue
					}
					nonzero++
					if l.String() != "-1*param#0 +1*param#1 +1" {
						okForm = false
					}
					// guarded by txHeight != -1 and txHeight <= curHeight
					g := strings.Join(p.guardForms(b), " & ")
					if !strings.Contains(g, "+1*param#0 +1 != 0") || !strings.Contains(g, "+1*param#0 -1*param#1 -1 < 0") {
						okForm = false
						forms = append(forms, "guards: "+g)
					}
				}
			}
			c.Check("C06-R1", "confirms-canonical-form", cf.Pos(), okForm && nonzero == 1,
				"confirms(txHeight, curHeight) is not 'curHeight - txHeight + 1, and 0 when unconfirmed (-1) or above the tip' (forms: "+strings.Join(forms, " | ")+")")
		}
		if cd := walletFn(c, "C06-R1", "confirmed"); cd != nil {
			ok := false
			for _, b := range cd.Blocks {
				for _, ins := range b.Instrs {
					if r, isR := ins.(*ssa.Return); isR {
						if f, okf := p.cmpForm(r.Results[0], true); okf {
							// minconf - confirms - 1 < 0  i.e. confirms >= minconf
							ok = f.String() == "-1*call:confirms(+1*param#1 +0,+1*param#2 +0) +1*param#0 -1 < 0"
							if !ok {
								c.Note("confirmed() form: %s", f.String())
							}
						}
					}
				}
			}
			c.Check("C06-R1", "confirmed-canonical-form", cd.Pos(), ok, "confirmed(minconf, txHeight, curHeight) is not 'confirms(txHeight, curHeight) >= minconf'")
		}
	}

	// R2 serialisation
	tto := walletFn(c, "C06-R2", "txToOutputs")
	if tto != nil {
		callers := p.callers(tto)
		for _, cs := range callers {
			// txCreator itself, or a private part of it (a function used by nothing else)
			ok := p.partOfNamed(cs.Parent(), "txCreator")
			c.Check("C06-R2", "txToOutputs-caller:"+fnName(cs.Parent()), cs.Pos(), ok, "txToOutputs (coin selection + signing) is called outside the serialising txCreator goroutine: two requests can pick the same coin")
		}
		c.Floor("C06-R2", "callers of txToOutputs", len(callers), 1)
		if tc := walletFn(c, "C06-R2", "txCreator"); tc != nil {
			starts := p.callers(tc)
			nGo := 0
			for _, s := range starts {
				if _, isGo := s.(*ssa.Go); isGo {
					nGo++
				}
			}
			c.Check("C06-R2", "single-txCreator-goroutine", tc.Pos(), nGo == 1 && len(starts) == 1, fmt.Sprintf("txCreator is started %d times (%d as goroutine): coin selection is no longer serialised by a single consumer", len(starts), nGo))
		}
		// CreateSimpleTx reaches txToOutputs only via the channel: it must not call it
		checkSelectionConsumed(c, tto)
		checkSignValidate(c, tto)
		checkRequestFieldsFromSameNamedParams(c, "C06-R2")
		checkInputSourceConsumes(c, "C06-R3")
		checkSignDecisionScope(c, "C06-R4")
	}
	checkPublish(c, func(string) string { return "C06-R5" })
}

// heightOwner: struct type owning the Height field loaded by v ("" if not a field load).
func heightOwner(v ssa.Value) string {
	v = stripConv(v)
	u, ok := v.(*ssa.UnOp)
	if !ok || u.Op != token.MUL {
		return ""
	}
	fa, ok := u.X.(*ssa.FieldAddr)
	if !ok {
		return ""
	}
	// walk up embedded structs: Credit.BlockMeta.Block.Height
	for {
		tn, _ := fieldAddrName(fa)
		inner, ok := fa.X.(*ssa.FieldAddr)
		if !ok {
			return tn
		}
		fa = inner
	}
}

// R3: explicit selections are consumed from the eligible map.
func checkSelectionConsumed(c *Ctx, tto *ssa.Function) {
	p := c.P
	n := 0
	for _, fn := range Closures(tto) {
		for _, l := range loopsOf(fn) {
			if l.Kind == "for" {
				continue
			}
			// loop containing a comma-ok lookup keyed by the loop element (an OutPoint)
			var look *ssa.Lookup
			for b := range l.Blocks {
				for _, ins := range b.Instrs {
					if lk, ok := ins.(*ssa.Lookup); ok && lk.CommaOk && l.elemTypeName() == "OutPoint" {
						look = lk
					}
				}
			}
			if look == nil {
				continue
			}
			n++
			// miss -> error
			missOK := true
			for b := range l.Blocks {
				for si := range b.Succs {
					f := edgeFactOf(b, si)
					if f == nil || f.Kind != "false" {
						continue
					}
					ex, ok := f.V.(*ssa.Extract)
					if !ok || ex.Tuple != ssa.Value(look) || ex.Index != 1 {
						continue
					}
					q := &PathQuery{Fn: fn, Target: p.nonErrorReturn()}
					q.LoopExit = func(from, to *ssa.BasicBlock) bool { return to == l.Header }
					if len(exploreFromBlock(q, b.Succs[si], b)) > 0 {
						missOK = false
					}
				}
			}
			c.Check("C06-R3", "selected-outpoint-must-be-eligible", look.Pos(), missOK, "an explicitly selected outpoint that is not in the eligible set is not refused")
			// hit -> consumed (delete from the same map) before the next iteration
			bad := l.MustPassPerIteration(p, func(ins ssa.Instruction) bool {
				call, ok := ins.(*ssa.Call)
				if !ok {
					return false
				}
				bi, ok := call.Call.Value.(*ssa.Builtin)
				return ok && bi.Name() == "delete" && call.Call.Args[0] == look.X
			})
			c.Check("C06-R3", "selected-outpoint-consumed", look.Pos(), bad == "",
				"an explicitly selected outpoint stays in the eligible map after being used, so listing it twice spends the same output twice in one transaction ("+bad+")")
		}
	}
	c.Floor("C06-R3", "explicit-selection loops", n, 1)
}

// R4: sign then validate.
func checkSignValidate(c *Ctx, tto *ssa.Function) {
	p := c.P
	var cl *ssa.Function
	for _, f := range Closures(tto) {
		if len(callsNamed(f, "AddAllInputScripts")) > 0 {
			cl = f
		}
	}
	if cl == nil {
		c.Check("C06-R4", "signing-site", tto.Pos(), false, "txToOutputs no longer calls AddAllInputScripts (undecided)")
		return
	}
	watchOnlyEdge := func(from *ssa.BasicBlock, si int) bool {
		f := edgeFactOf(from, si)
		if f == nil || f.Kind != "true" {
			return false
		}
		sl := &Slicer{P: p, KeepExtract: true}
		all := true
		n := 0
		for _, o := range sl.Origins(f.V) {
			n++
			ex, ok := o.(*ssa.Extract)
			if !ok || ex.Index != 0 {
				all = false
				continue
			}
			call, ok := ex.Tuple.(*ssa.Call)
			if !ok || calleeShort(&call.Call) != "IsWatchOnlyAccount" {
				all = false
			}
		}
		return all && n > 0
	}
	bad := p.mustPassToSuccess(cl, nil, isCallNamed("AddAllInputScripts"), watchOnlyEdge)
	c.Check("C06-R4", "non-watch-only-result-is-signed", cl.Pos(), bad == nil, "a non-dry-run, non-watch-only success path of txToOutputs returns an unsigned transaction")
	for _, s := range callsNamed(cl, "AddAllInputScripts") {
		bad := p.mustPassToSuccess(cl, s, isCallNamed("validateMsgTx"), nil)
		c.Check("C06-R4", "signed-result-is-validated", s.Pos(), bad == nil, "a signed transaction can be returned without validateMsgTx having run the script engine on it")
	}
	v := walletFn(c, "C06-R4", "validateMsgTx")
	if v == nil {
		return
	}
	std := lookupConst(p, "github.com/btcsuite/btcd/txscript", "StandardVerifyFlags")
	n := 0
	for _, l := range loopsOf(v) {
		if l.Kind == "for" || !l.containsInstr(isCallNamed("NewEngine")) {
			continue
		}
		n++
		for _, name := range []string{"NewEngine", "Execute"} {
			bad := l.MustPassPerIteration(p, isCallNamed(name))
			c.Check("C06-R4", "every-input-"+name, l.Header.Instrs[0].Pos(), bad == "", "validateMsgTx does not run "+name+" for every input ("+bad+")")
		}
		exits := l.EarlyExits(p)
		c.Check("C06-R4", "validate-loop-complete", l.Header.Instrs[0].Pos(), len(exits) == 0, "validateMsgTx can stop before all inputs were verified: "+strings.Join(exits, "; "))
		// prevScripts parameter is ranged
		overParam := l.Over == "param:prevScripts" || strings.HasPrefix(l.Over, "param:")
		if !overParam && l.OverVal != nil {
			// the scripts handed in as a field of a parameter struct (parameters grouped)
			for _, o := range (&Slicer{P: p, ThroughDeref: true, ThroughFieldsOfAllocs: true}).Origins(l.OverVal) {
				if _, _, base, okf := fieldOf(o); okf {
					for _, o2 := range (&Slicer{P: p, ThroughDeref: true}).Origins(base) {
						if prm, ok := o2.(*ssa.Parameter); ok && prm.Parent() == v {
							overParam = true
						}
					}
					if al, ok := base.(*ssa.Alloc); ok && isParamSpill(al) {
						overParam = true
					}
				}
				if f, ok := o.(*ssa.Field); ok {
					if prm, ok := f.X.(*ssa.Parameter); ok && prm.Parent() == v {
						overParam = true
					}
				}
			}
		}
		c.Check("C06-R4", "validate-loop-over-prevScripts", l.Header.Instrs[0].Pos(), overParam, "validateMsgTx does not iterate over the previous scripts it was given ("+l.Over+")")
	}
	c.Floor("C06-R4", "script verification loops", n, 1)
	for _, call := range callsNamed(v, "NewEngine") {
		ok := false
		if len(call.Call.Args) > 3 && std != nil {
			if cst, isC := call.Call.Args[3].(*ssa.Const); isC && cst.Value != nil && constant.Compare(cst.Value, token.EQL, std) {
				ok = true
			}
		}
		c.Check("C06-R4", "standard-verify-flags", call.Pos(), ok, "the script engine is not created with txscript.StandardVerifyFlags")
	}
	checkPrevOutPerInput(c, "C06-R4")
	checkUnlockHoldOnlyWhenUnlocked(c, "C06-R4")
	checkExplicitInputsDistinct(c, "C06-R3")
	checkInputValuesAreCoinAmounts(c, "C06-R4")
	checkSignerAmountIsIndexedInputValue(c, "C06-R4")
	checkWatchOnlyAnswerFromKeyMaterial(c, "C06-R4")
	checkExplicitInputsPassEligibility(c, "C06-R3")
	checkNoStaleTailAfterInPlaceFilter(c, "C06-R3")
	checkFixedSelectionSourceIsStateless(c, "C06-R3")
}

// checkExplicitInputsPassEligibility: "explicitly selected inputs that are not eligible are refused": wherever the wallet
// funds a transaction from a caller-given list of outpoints (the constant input source), the list has first been matched
// against the eligible set — every path to building that source passes findEligibleOutputs (the matching itself is the
// selected-outpoint-must-be-eligible rule above).
func checkExplicitInputsPassEligibility(c *Ctx, rule string) {
	p := c.P
	cis := p.Func("wallet", "", "constantInputSource")
	fe := p.Func("wallet", "Wallet", "findEligibleOutputs")
	if cis == nil || fe == nil {
		c.Unresolved(rule, "wallet.constantInputSource / Wallet.findEligibleOutputs")
		return
	}
	n := 0
	for _, cs := range p.realCallers(cis) {
		call, ok := cs.(*ssa.Call)
		if !ok {
			continue
		}
		n++
		// the function that owns the funding (the call may sit in a private part of it)
		owner := p.regionOwner(call.Parent())
		okE := p.precededInRegion(owner, call, func(f *ssa.Function, at ssa.Instruction) bool {
			q := &PathQuery{Fn: f, Barrier: p.reachingCall(fe)}
			q.Target = func(ins ssa.Instruction, _ *ssa.BasicBlock) bool { return ins == at }
			return len(q.From(nil)) == 0
		}, 0)
		c.Check(rule, "explicit-inputs-pass-eligibility:"+owner.Name(), call.Pos(), okE,
			owner.Name()+" funds a transaction from caller-given outpoints without matching them against the eligible set (minconf, maturity, account/scope, user locks, leases, unconfirmed spends): ineligible explicit inputs are accepted")
	}
	c.Floor(rule, "constant input sources built from explicit inputs", n, 2)
}

// checkWatchOnlyAnswerFromKeyMaterial: txToOutputs skips signing and validation when Manager.IsWatchOnlyAccount says the
// spending account is watch-only. "Every input of a non-watch-only result carries a signature" therefore needs that
// answer to be true only where there really are no private keys: on the manager-wide WatchOnly() fact, or on what the
// scoped manager finds in the account's own row. A constant "true" keyed by the account NUMBER is not such a fact.
func checkWatchOnlyAnswerFromKeyMaterial(c *Ctx, rule string) {
	p := c.P
	fn := p.Func("waddrmgr", "Manager", "IsWatchOnlyAccount")
	if fn == nil {
		c.Unresolved(rule, "Manager.IsWatchOnlyAccount")
		return
	}
	n := 0
	for _, b := range fn.Blocks {
		r, ok := b.Instrs[len(b.Instrs)-1].(*ssa.Return)
		if !ok || len(r.Results) == 0 {
			continue
		}
		for _, via := range append([]*ssa.BasicBlock{nil}, b.Preds...) {
			v := resolvePhi(effectiveResult(r, 0), b, via)
			cb, isC := constBool(v)
			if !isC || !cb {
				continue
			}
			n++
			unguarded := reachableAvoiding(fn, nil, r, func(from *ssa.BasicBlock, si int) bool {
				f := edgeFactOf(from, si)
				return f != nil && f.Kind == "true" && isResultOfCall(f.V, "WatchOnly", -1)
			})
			construct := "watch-only-answer-from-key-material:when-manager-is-watch-only"
			if unguarded {
				construct = "watch-only-answer-from-key-material:constant-answer"
			}
			c.Check(rule, construct, r.Pos(), !unguarded,
				"Manager.IsWatchOnlyAccount answers 'watch-only' on a path that has established neither that the manager is watch-only nor what the account's row holds (a constant answer, e.g. for the imported-addresses account): txToOutputs then returns a spend from that account unsigned and unvalidated although the wallet holds the private key")
			break
		}
	}
	c.Floor(rule, "constant 'watch-only' answers of Manager.IsWatchOnlyAccount", n, 1)
}

// checkPrevOutPerInput: the previous-output fetcher handed to the signer and to the validation engine RETAINS the
// *wire.TxOut pointers it is given (txscript.MultiPrevOutFetcher.AddPrevOut stores them in a map). Each input must
// therefore get its own object: a pointer to a variable that lives across the iterations of the filling loop makes
// every outpoint map to the last input's amount and script — the taproot sighash (which commits to all inputs' amounts
// and scripts) is then computed, by signer and self-check alike, over wrong data, and nodes reject the transaction.
func checkPrevOutPerInput(c *Ctx, rule string) {
	p := c.P
	n := 0
	for _, pkg := range []string{"wallet/txauthor", "wallet"} {
		for _, fn := range p.FuncsIn(pkg) {
			loops := loopsOf(fn)
			for _, call := range callsNamed(fn, "AddPrevOut") {
				l := innermostLoopOf(loops, call)
				if l == nil {
					continue
				}
				n++
				for _, a := range call.Call.Args {
					if _, isPtr := a.Type().Underlying().(*types.Pointer); !isPtr {
						continue
					}
					perIter := true
					why := ""
					switch x := stripConv(a).(type) {
					case *ssa.Alloc:
						if !l.Blocks[x.Block()] {
							perIter = false
							why = "variable " + x.Comment + " declared outside the loop"
						}
					case *ssa.FieldAddr, *ssa.IndexAddr:
						// element of a collection indexed by the loop: distinct per input
					}
					c.Check(rule, "prev-output-object-per-input:"+fnName(fn), call.Pos(), perIter,
						fnName(fn)+" registers the address of one "+why+" for every input with the previous-output fetcher, which keeps the pointer: all inputs end up with the last input's amount and script (invalid taproot signatures on multi-input transactions)")
				}
			}
		}
	}
	c.Floor(rule, "previous-output registrations inside a loop", n, 1)
}

func lookupConst(p *Program, pkgPath, name string) constant.Value {
	for _, pk := range p.SSA.AllPackages() {
		if pk.Pkg.Path() == pkgPath {
			if cst, ok := pk.Pkg.Scope().Lookup(name).(*types.Const); ok {
				return cst.Val()
			}
		}
	}
	return nil
}

// checkUnlockHoldOnlyWhenUnlocked: creating a transaction for a key-holding wallet asks the wallet locker to hold the
// unlocked state for the duration of signing; the locker grants the hold (hands its hold channel over) only on the edge
// where the address manager reports NOT locked, and refuses otherwise. Whether to sign is decided from the accounts'
// key material, which Lock() wipes — with a hold granted to a locked wallet every account looks watch-only, signing and
// validation are skipped, and an unsigned transaction is returned (and published) as a success.
func checkUnlockHoldOnlyWhenUnlocked(c *Ctx, rule string) {
	p := c.P
	n := 0
	for _, fn := range p.FuncsIn("wallet") {
		for _, b := range fn.Blocks {
			for _, ins := range b.Instrs {
				snd, ok := ins.(*ssa.Send)
				if !ok {
					continue
				}
				nm, ok := snd.X.Type().(*types.Named)
				if !ok || nm.Obj().Name() != "heldUnlock" {
					continue
				}
				n++
				ungated := reachableAvoiding(fn, nil, snd, func(from *ssa.BasicBlock, si int) bool {
					f := edgeFactOf(from, si)
					if f == nil || f.Kind != "false" {
						return false
					}
					call, ok := f.V.(*ssa.Call)
					return ok && calleeShort(&call.Call) == "IsLocked"
				})
				c.Check(rule, "unlock-hold-granted-only-when-unlocked:"+fnName(fn), snd.Pos(), !ungated,
					fnName(fn)+" grants a hold on the unlocked state without having seen the address manager not locked: a locked key-holding wallet then creates transactions whose inputs are never signed (every account looks watch-only once Lock() wiped its key) and reports success")
			}
		}
	}
	c.Floor(rule, "grants of the unlock hold", n, 1)
}

// checkExplicitInputsDistinct: a transaction funded from inputs the caller lists adds up what those inputs are worth;
// an outpoint listed twice is one coin counted twice. Where a list of caller-supplied outpoints is turned into the credits
// a fixed input source hands out (FundPsbt), each outpoint is first looked up in a set of the ones seen so far and the
// "already seen" edge leaves with an error. (txToOutputs consumes its explicit selection from the eligible set, C06-R3.)
func checkExplicitInputsDistinct(c *Ctx, rule string) {
	p := c.P
	fp := p.Func("wallet", "Wallet", "FundPsbt")
	if fp == nil {
		c.Unresolved(rule, "wallet.Wallet.FundPsbt")
		return
	}
	isOutPointMap := func(t types.Type) bool {
		m, ok := t.Underlying().(*types.Map)
		if !ok {
			return false
		}
		nm, ok := m.Key().(*types.Named)
		return ok && nm.Obj().Name() == "OutPoint"
	}
	n := 0
	for _, f := range p.regionOf(fp) {
		for _, l := range loopsOf(f) {
			// the loop that builds the credits: it stores OutPoint fields of the ranged inputs into Credit values
			builds := l.containsInstr(func(ins ssa.Instruction) bool {
				st, ok := ins.(*ssa.Store)
				if !ok {
					return false
				}
				fa, ok := st.Addr.(*ssa.FieldAddr)
				if !ok {
					return false
				}
				tn, fld := fieldAddrName(fa)
				return tn == "Credit" && fld == "OutPoint"
			})
			if !builds {
				continue
			}
			n++
			// every iteration passes a comma-ok lookup in an OutPoint-keyed set whose "found" edge cannot reach the next
			// iteration or a success return, and records the outpoint
			var lk *ssa.Lookup
			recorded := false
			for b := range l.Blocks {
				for _, ins := range b.Instrs {
					switch x := ins.(type) {
					case *ssa.Lookup:
						if x.CommaOk && isOutPointMap(x.X.Type()) {
							lk = x
						}
					case *ssa.MapUpdate:
						if isOutPointMap(x.Map.Type()) {
							recorded = true
						}
					}
				}
			}
			ok := lk != nil && recorded
			if ok {
				if bad := l.MustPassPerIteration(p, func(ins ssa.Instruction) bool { return ins == ssa.Instruction(lk) }); bad != "" {
					ok = false
				}
				for b := range l.Blocks {
					for si := range b.Succs {
						ef := edgeFactOf(b, si)
						if ef == nil || ef.Kind != "true" {
							continue
						}
						ex, isEx := ef.V.(*ssa.Extract)
						if !isEx || ex.Tuple != ssa.Value(lk) || ex.Index != 1 {
							continue
						}
						q := &PathQuery{Fn: f}
						q.LoopExit = func(from, to *ssa.BasicBlock) bool { return to == l.Header }
						q.Target = p.nonErrorReturn()
						if len(exploreFromBlock(q, b.Succs[si], b)) > 0 {
							ok = false
						}
					}
				}
			}
			c.Check(rule, "explicit-inputs-distinct:"+outermost(f).Name(), l.Header.Instrs[0].Pos(), ok,
				fnName(f)+" turns the caller's list of inputs into credits without refusing an outpoint that is listed twice: the coin's value is counted once per mention, so a packet naming one 1,000,000 sat coin twice is funded with outputs worth nearly 2,000,000 sat")
		}
	}
	c.Floor(rule, "loops building credits from caller-supplied inputs", n, 1)
}

// appendedElems: the element values of an append(s, a, b...) call (stored into the call's varargs array).
func appendedElems(call *ssa.Call) []ssa.Value {
	if len(call.Call.Args) != 2 {
		return nil
	}
	sl, ok := call.Call.Args[1].(*ssa.Slice)
	if !ok {
		return nil
	}
	al, ok := sl.X.(*ssa.Alloc)
	if !ok {
		return nil
	}
	var out []ssa.Value
	for _, u := range usesOf(al) {
		ia, ok := u.(*ssa.IndexAddr)
		if !ok {
			continue
		}
		for _, uu := range usesOf(ia) {
			if st, ok := uu.(*ssa.Store); ok && st.Addr == ssa.Value(ia) {
				out = append(out, st.Val)
			}
		}
	}
	return out
}

// checkInputValuesAreCoinAmounts: the input source hands the author, next to the inputs, the value of each input; the
// signer commits to those values (segwit and taproot signatures cover the amount of the output being spent), and the
// wallet's own post-signing validation uses the same list. Each value appended to that list is the Amount of a credit —
// the same credit whose outpoint makes the input appended in that iteration. A running total (or any other amount) in
// its place yields signatures that verify against the wallet's list and fail against the chain.
func checkInputValuesAreCoinAmounts(c *Ctx, rule string) {
	p := c.P
	n := 0
	isCoinAmount := func(v ssa.Value) bool {
		tn, fld, _, okf := fieldOf(stripConv(v))
		return okf && ((tn == "Credit" && fld == "Amount") || (tn == "TxOut" && fld == "Value"))
	}
	seenFn := map[*ssa.Function]bool{}
	var visit func(name string, f *ssa.Function, depth int)
	visit = func(name string, f *ssa.Function, depth int) {
		if seenFn[f] || depth > 2 {
			return
		}
		seenFn[f] = true
		for _, ci := range callsOf(f) {
			call, ok := ci.(*ssa.Call)
			if !ok {
				continue
			}
			if calleeShort(&call.Call) != "append" {
				// the accumulating state may be a small struct with an add method shared by both sources
				if g := call.Call.StaticCallee(); g != nil && len(g.Blocks) > 0 && fnPkgPath(g) == fnPkgPath(f) && g.Object() != nil && !g.Object().Exported() {
					for _, cl := range Closures(g) {
						visit(name, cl, depth+1)
					}
				}
				continue
			}
			st, ok := call.Type().Underlying().(*types.Slice)
			if !ok {
				continue
			}
			nm, ok := st.Elem().(*types.Named)
			if !ok || nm.Obj().Name() != "Amount" {
				continue
			}
			for _, v := range appendedElems(call) {
				okVal := isCoinAmount(v)
				if prm, isPrm := stripConv(v).(*ssa.Parameter); isPrm && !okVal {
					// recorded through a helper's parameter: what its call sites pass
					idx := paramIndex(prm.Parent(), prm)
					sites := p.realCallers(prm.Parent())
					okVal = len(sites) > 0
					for _, cs := range sites {
						if idx >= len(cs.Common().Args) || !isCoinAmount(cs.Common().Args[idx]) {
							okVal = false
						}
					}
				}
				n++
				c.Check(rule, "input-value-is-the-coin-amount:"+name, call.Pos(), okVal,
					fnName(f)+" records as the value of an input something other than the Amount of the credit it spends: the signer commits to that value, so every segwit / taproot input after the first is signed for the wrong amount — the wallet's own check (same list) passes, the network rejects the transaction")
			}
		}
	}
	for _, name := range []string{"makeInputSource", "constantInputSource"} {
		top := p.Func("wallet", "", name)
		if top == nil {
			c.Unresolved(rule, "wallet."+name)
			continue
		}
		for _, f := range p.regionOf(top) {
			visit(name, f, 0)
		}
	}
	c.Floor(rule, "input values recorded by the input sources", n, 2)
}
