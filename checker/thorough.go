package main

import (
	"fmt"
	"io"
	"os"
	"os/exec"
	"path/filepath"
	"regexp"
	"runtime"
	"runtime/debug"
	"sort"
	"strings"
	"sync"
)

// thorough adds the deeper tier on top of the quick verdict (which is decided
// first, on /repo alone):
//  1. platform stability: the program is re-loaded under GOOS=windows and
//     GOARCH=386 and the property's rules must reach the same verdicts;
//  2. self-test of the checker against its corpora: every applicable mutant
//     (own mutants + independently seeded ones) must add a report for this
//     property, every behaviour-preserving edit must add none. Self-test
//     results are recorded in the evidence and printed, but never change the
//     exit status: a checker defect is not a violation of btcwallet.
func thorough(c *Ctx, spec *propSpec, extra map[string]interface{}) {
	base := failingKeys(c)
	// ---- 1. platform stability ----
	var plats []map[string]interface{}
	for _, pf := range [][2]string{{"windows", ""}, {"", "386"}} {
		name := "GOOS=" + pf[0] + " GOARCH=" + pf[1]
		prog, err := Load(c.P.RepoDir, pf[0], pf[1])
		if err != nil {
			c.Obls = append(c.Obls, Obligation{Rule: "infra", Construct: "platform-load " + name, OK: false, Detail: err.Error()})
			continue
		}
		c2 := newCtx(prog, spec.ID)
		func() {
			defer func() {
				if r := recover(); r != nil {
					c2.Obls = append(c2.Obls, Obligation{Rule: "infra", Construct: "checker-panic", OK: false, Detail: fmt.Sprint(r)})
				}
			}()
			spec.Run(c2)
		}()
		got := failingKeys(c2)
		same := equalSets(base, got)
		plats = append(plats, map[string]interface{}{"platform": name, "obligations": len(c2.Obls), "same_verdicts": same, "packages": len(prog.Pkgs)})
		if !same {
			c.Obls = append(c.Obls, Obligation{Rule: "infra", Construct: "platform-stability " + name, OK: false,
				Detail: fmt.Sprintf("verdicts differ under %s: default %v vs %v", name, keysOf(base), keysOf(got))})
		} else {
			c.Obls = append(c.Obls, Obligation{Rule: "platform", Construct: "same-verdicts " + name, OK: true, Requires: "the rules must reach identical verdicts under other GOOS/GOARCH (build-tagged files could hide code from the analysis)"})
		}
		prog = nil
		c2 = nil
		runtime.GC()
		debug.FreeOSMemory()
	}
	theProg = c.P
	extra["platforms"] = plats

	// ---- 2. self-test ----
	if os.Getenv("VERIF_NO_SELFTEST") != "" {
		return
	}
	st := selftest(c, spec, base)
	extra["selftest"] = st
}

func failingKeys(c *Ctx) map[string]bool {
	out := map[string]bool{}
	for _, o := range c.Obls {
		if !o.OK {
			out[o.Rule+"|"+o.Construct] = true
		}
	}
	return out
}

func equalSets(a, b map[string]bool) bool {
	if len(a) != len(b) {
		return false
	}
	for k := range a {
		if !b[k] {
			return false
		}
	}
	return true
}

func keysOf(m map[string]bool) []string {
	var out []string
	for k := range m {
		out = append(out, k)
	}
	sort.Strings(out)
	return out
}

var reportRe = regexp.MustCompile(`(?m)^REPORT (\S+) (\S+): (.*?) — `)

type selftestEntry struct {
	Patch    string   `json:"patch"`
	Kind     string   `json:"kind"` // mutant | seeded | neutral
	Result   string   `json:"result"`
	NewFails []string `json:"new_reports,omitempty"`
}

// selftest runs this binary on patched scratch copies of the repository.
func selftest(c *Ctx, spec *propSpec, base map[string]bool) map[string]interface{} {
	vdir := verifDir()
	var files []struct{ path, kind string }
	add := func(glob, kind string) {
		m, _ := filepath.Glob(glob)
		sort.Strings(m)
		for _, f := range m {
			files = append(files, struct{ path, kind string }{f, kind})
		}
	}
	add(filepath.Join(vdir, "mutants", spec.ID, "*.patch"), "mutant")
	add(filepath.Join(vdir, "seeded", spec.ID+"-*", "patch.diff"), "seeded")
	add(filepath.Join(vdir, "mutants", "neutral", "*.patch"), "neutral")
	add(filepath.Join(vdir, "neutral", "*", "patch.diff"), "neutral")
	exe, err := os.Executable()
	if err != nil {
		return map[string]interface{}{"ok": false, "error": err.Error()}
	}
	// behaviour-preserving patches are relevant to this property only if they touch a directory in which one of its
	// obligations lives (the others cannot change any of its verdicts and are exercised by their own properties)
	dirs := map[string]bool{}
	for _, o := range c.Obls {
		if i := strings.LastIndex(o.Pos, "/"); i > 0 {
			dirs[o.Pos[:i]] = true
		}
	}
	relevant := func(patch string) bool {
		data, err := os.ReadFile(patch)
		if err != nil {
			return true
		}
		for _, ln := range strings.Split(string(data), "\n") {
			if strings.HasPrefix(ln, "+++ b/") {
				f := strings.TrimPrefix(ln, "+++ b/")
				if i := strings.LastIndex(f, "/"); i > 0 && dirs[f[:i]] {
					return true
				}
			}
		}
		return false
	}
	var kept []struct{ path, kind string }
	notRelevant := 0
	for _, f := range files {
		if f.kind == "neutral" && !relevant(f.path) {
			notRelevant++
			continue
		}
		kept = append(kept, f)
	}
	files = kept
	entries := make([]selftestEntry, len(files))
	ok := true
	caught, missed, quiet, alarms, skipped := 0, 0, 0, 0, 0
	var mu sync.Mutex
	sem := make(chan struct{}, 4)
	var wg sync.WaitGroup
	for fi, f := range files {
		fi, f := fi, f
		wg.Add(1)
		sem <- struct{}{}
		go func() {
			defer func() { <-sem; wg.Done() }()
			e := selftestEntry{Patch: strings.TrimPrefix(f.path, vdir+"/"), Kind: f.kind}
			scratch, err := os.MkdirTemp("", "vcheck-self-")
			if err != nil {
				e.Result = "error: " + err.Error()
				mu.Lock()
				entries[fi] = e
				mu.Unlock()
				return
			}
			func() {
				defer os.RemoveAll(scratch)
				repoCopy := filepath.Join(scratch, "repo")
				if err := copyTree(c.P.RepoDir, repoCopy); err != nil {
					e.Result = "error: " + err.Error()
					return
				}
				ap := exec.Command("git", "apply", "--whitespace=nowarn", f.path)
				ap.Dir = repoCopy
				if out, err := ap.CombinedOutput(); err != nil {
					ap2 := exec.Command("patch", "-p1", "-s", "-i", f.path)
					ap2.Dir = repoCopy
					if out2, err2 := ap2.CombinedOutput(); err2 != nil {
						e.Result = "skipped (patch does not apply to the current tree)"
						_ = out
						_ = out2
						return
					}
				}
				ev := filepath.Join(scratch, "ev")
				os.MkdirAll(ev, 0o755)
				cmd := exec.Command(exe, "-property", spec.ID, "-tier", "quick")
				cmd.Env = append(os.Environ(), "VERIF_REPO="+repoCopy, "VERIF_EVIDENCE_DIR="+ev, "VERIF_DIR="+vdir)
				out, _ := cmd.CombinedOutput()
				got := map[string]bool{}
				for _, m := range reportRe.FindAllStringSubmatch(string(out), -1) {
					got[m[2]+"|"+m[3]] = true
				}
				if strings.Contains(string(out), "LOAD-FAILURE") {
					got["infra|load-failure"] = true
				}
				var newFails []string
				for k := range got {
					if !base[k] {
						newFails = append(newFails, k)
					}
				}
				sort.Strings(newFails)
				e.NewFails = newFails
				switch f.kind {
				case "neutral":
					if len(newFails) == 0 {
						e.Result = "quiet"
					} else {
						e.Result = "FALSE-ALARM"
					}
				default:
					if len(newFails) > 0 {
						e.Result = "caught"
					} else {
						e.Result = "MISSED"
					}
				}
			}()
			mu.Lock()
			switch {
			case strings.HasPrefix(e.Result, "skipped"):
				skipped++
			case e.Result == "quiet":
				quiet++
			case e.Result == "FALSE-ALARM":
				alarms++
				ok = false
			case e.Result == "caught":
				caught++
			case e.Result == "MISSED":
				missed++
				ok = false
			}
			if strings.HasPrefix(e.Result, "MISSED") || strings.HasPrefix(e.Result, "FALSE-ALARM") {
				fmt.Printf("SELFTEST-MISS property=%s %s %s %v\n", spec.ID, e.Result, e.Patch, e.NewFails)
			}
			entries[fi] = e
			mu.Unlock()
		}()
	}
	wg.Wait()
	fmt.Printf("SELFTEST property=%s mutants caught=%d missed=%d neutral quiet=%d false-alarm=%d skipped=%d (neutral patches not touching this property's directories: %d not run)\n", spec.ID, caught, missed, quiet, alarms, skipped, notRelevant)
	return map[string]interface{}{"ok": ok, "caught": caught, "missed": missed, "neutral_quiet": quiet, "false_alarms": alarms, "skipped": skipped, "neutral_not_relevant": notRelevant, "entries": entries,
		"note": "self-test never changes the exit status: the verdict on the property is decided by the analysis of /repo alone"}
}

func copyTree(src, dst string) error {
	return filepath.Walk(src, func(path string, info os.FileInfo, err error) error {
		if err != nil {
			return err
		}
		rel, _ := filepath.Rel(src, path)
		if rel == ".git" || strings.HasPrefix(rel, ".git"+string(filepath.Separator)) {
			if info.IsDir() {
				return filepath.SkipDir
			}
			return nil
		}
		target := filepath.Join(dst, rel)
		if info.IsDir() {
			return os.MkdirAll(target, 0o755)
		}
		if info.Mode()&os.ModeSymlink != 0 {
			return nil
		}
		in, err := os.Open(path)
		if err != nil {
			return err
		}
		defer in.Close()
		out, err := os.OpenFile(target, os.O_CREATE|os.O_WRONLY|os.O_TRUNC, info.Mode().Perm())
		if err != nil {
			return err
		}
		defer out.Close()
		_, err = io.Copy(out, in)
		return err
	})
}
