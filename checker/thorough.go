package main

// thorough adds the deeper tier: re-run under other GOOS/GOARCH and compare verdicts.
func thorough(c *Ctx, spec *propSpec, extra map[string]interface{}) {
}
