package main

import (
	"go/types"
	"sort"
	"strings"

	"golang.org/x/tools/go/callgraph"
	"golang.org/x/tools/go/ssa"
)

// siteIndex maps call instructions to dynamic callees from the VTA graph.
func (p *Program) siteCallees() map[ssa.CallInstruction][]*ssa.Function {
	if p.sites != nil {
		return p.sites
	}
	p.sites = map[ssa.CallInstruction][]*ssa.Function{}
	g := p.VTA()
	for _, n := range g.Nodes {
		for _, e := range n.Out {
			if e.Site == nil || e.Callee == nil || e.Callee.Func == nil {
				continue
			}
			p.sites[e.Site] = append(p.sites[e.Site], e.Callee.Func)
		}
	}
	return p.sites
}

var _ = callgraph.CalleesOf

// funcArgs returns function values passed directly at a call site: closures
// (MakeClosure) and named functions used as values, including bound-method
// closures' underlying functions.
func funcArgs(c ssa.CallInstruction) []*ssa.Function {
	var out []*ssa.Function
	for _, a := range c.Common().Args {
		switch x := stripConv(a).(type) {
		case *ssa.MakeClosure:
			if f, ok := x.Fn.(*ssa.Function); ok {
				out = append(out, f)
			}
		case *ssa.Function:
			out = append(out, x)
		}
	}
	return out
}

// Callees resolves the possible callees of a call site.
//   - static callee when there is one;
//   - interface invokes and other dynamic calls through the VTA graph;
//   - calls of a function-typed parameter / free variable are NOT resolved
//     here (context-insensitive VTA would merge every closure ever passed to
//     walletdb.Update); instead callers account for closures via funcArgs at
//     the site where they are passed.
func (p *Program) Callees(c ssa.CallInstruction) []*ssa.Function {
	cc := c.Common()
	if f := cc.StaticCallee(); f != nil {
		return []*ssa.Function{f}
	}
	if !cc.IsInvoke() {
		switch v := cc.Value.(type) {
		case *ssa.Parameter, *ssa.FreeVar:
			return nil
		case *ssa.MakeClosure:
			if f, ok := v.Fn.(*ssa.Function); ok {
				return []*ssa.Function{f}
			}
		}
	}
	return p.siteCallees()[c]
}

// mayCall: callees plus function-valued arguments (assumed invoked by the callee).
func (p *Program) mayCall(c ssa.CallInstruction) []*ssa.Function {
	out := append([]*ssa.Function{}, p.Callees(c)...)
	out = append(out, funcArgs(c)...)
	return out
}

// callsOf lists call instructions in fn (not nested closures).
func callsOf(fn *ssa.Function) []ssa.CallInstruction {
	var out []ssa.CallInstruction
	for _, b := range fn.Blocks {
		for _, ins := range b.Instrs {
			if c, ok := ins.(ssa.CallInstruction); ok {
				out = append(out, c)
			}
		}
	}
	return out
}

// reachSet computes the set of functions transitively callable from fn using
// mayCall edges. Only bodies of repo functions are expanded; external
// functions are leaves (but included in the set).
func (p *Program) reachSet(fn *ssa.Function) map[*ssa.Function]bool {
	if p.reachCache == nil {
		p.reachCache = map[*ssa.Function]map[*ssa.Function]bool{}
	}
	if s, ok := p.reachCache[fn]; ok {
		return s
	}
	seen := map[*ssa.Function]bool{fn: true}
	work := []*ssa.Function{fn}
	for len(work) > 0 {
		f := work[len(work)-1]
		work = work[:len(work)-1]
		if !p.InRepo(f) {
			continue
		}
		for _, c := range callsOf(f) {
			for _, g := range p.mayCall(c) {
				if !seen[g] {
					seen[g] = true
					work = append(work, g)
				}
			}
		}
	}
	p.reachCache[fn] = seen
	return seen
}

// callReaches reports whether the call instruction may (transitively) invoke
// any function in targets.
func (p *Program) callReaches(c ssa.CallInstruction, targets map[*ssa.Function]bool) bool {
	for _, g := range p.mayCall(c) {
		if targets[g] {
			return true
		}
		for t := range targets {
			if p.reachSet(g)[t] {
				return true
			}
		}
	}
	return false
}

// isCallTo reports whether ins is a call whose callee set includes fn (directly).
func (p *Program) isCallTo(ins ssa.Instruction, fns ...*ssa.Function) bool {
	c, ok := ins.(ssa.CallInstruction)
	if !ok {
		return false
	}
	for _, g := range p.Callees(c) {
		for _, f := range fns {
			if g == f {
				return true
			}
		}
	}
	return false
}

// reachingCall returns a predicate: instruction is a call that transitively reaches any of fns.
func (p *Program) reachingCall(fns ...*ssa.Function) func(ssa.Instruction) bool {
	t := map[*ssa.Function]bool{}
	for _, f := range fns {
		if f != nil {
			t[f] = true
		}
	}
	return func(ins ssa.Instruction) bool {
		c, ok := ins.(ssa.CallInstruction)
		if !ok {
			return false
		}
		if _, isDefer := ins.(*ssa.Defer); isDefer {
			return false
		}
		if _, isGo := ins.(*ssa.Go); isGo {
			return false
		}
		return p.callReaches(c, t)
	}
}

// callers returns all call sites in repo functions whose Callees include fn.
func (p *Program) callers(fn *ssa.Function) []ssa.CallInstruction {
	if p.callerIdx == nil {
		p.callerIdx = map[*ssa.Function][]ssa.CallInstruction{}
		for _, f := range p.RepoFuncs {
			for _, c := range callsOf(f) {
				for _, g := range p.Callees(c) {
					p.callerIdx[g] = append(p.callerIdx[g], c)
				}
			}
		}
	}
	return p.callerIdx[fn]
}

// methodOf: is callee the method `name` on (pointer to) named type pkgPath.typeName,
// or an interface method with that name on such an interface.
func calleeIs(c *ssa.CallCommon, pkgPath, recv, name string) bool {
	if c.IsInvoke() {
		m := c.Method
		if m.Name() != name {
			return false
		}
		return recvTypeIs(c.Value.Type(), pkgPath, recv)
	}
	f := c.StaticCallee()
	if f == nil {
		return false
	}
	return funcIs(f, pkgPath, recv, name)
}

func funcIs(f *ssa.Function, pkgPath, recv, name string) bool {
	if f.Name() != name {
		return false
	}
	if recv == "" {
		return f.Signature.Recv() == nil && f.Pkg != nil && f.Pkg.Pkg.Path() == pkgPath && f.Parent() == nil
	}
	r := f.Signature.Recv()
	if r == nil {
		return false
	}
	return recvTypeIs(r.Type(), pkgPath, recv)
}

func recvTypeIs(t types.Type, pkgPath, name string) bool {
	if pt, ok := t.(*types.Pointer); ok {
		t = pt.Elem()
	}
	n, ok := t.(*types.Named)
	if !ok {
		return false
	}
	o := n.Obj()
	return o.Name() == name && o.Pkg() != nil && o.Pkg().Path() == pkgPath
}

// ifaceMethodCall reports whether c invokes method `name` on any interface
// type (named) declared in package pkgPath — e.g. any walletdb.* interface's Put.
func ifaceMethodFromPkg(c *ssa.CallCommon, pkgPath string) (string, bool) {
	if !c.IsInvoke() {
		return "", false
	}
	m := c.Method
	if m.Pkg() != nil && m.Pkg().Path() == pkgPath {
		return m.Name(), true
	}
	// method declared in embedded interface from pkgPath: m.Pkg is that pkg already
	t := c.Value.Type()
	if n, ok := t.(*types.Named); ok && n.Obj().Pkg() != nil && n.Obj().Pkg().Path() == pkgPath {
		return m.Name(), true
	}
	return "", false
}

func sortedFnNames(set map[*ssa.Function]bool) []string {
	var out []string
	for f := range set {
		out = append(out, fnName(f))
	}
	sort.Strings(out)
	return out
}

func rel(pkg string) string {
	if pkg == "" {
		return rootMod
	}
	return rootMod + "/" + pkg
}

func shortPkg(path string) string {
	return strings.TrimPrefix(strings.TrimPrefix(path, rootMod), "/")
}
