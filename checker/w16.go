package main

// Rules added after seeded wave 16 (DESIGN.md 8.1n).

import (
	"go/token"
	"go/types"
	"strings"

	"golang.org/x/tools/go/ssa"
)

// checkRandomSourceReadOnlyThroughReadFull: the package random source of snacl is an io.Reader; a bare Read may return
// fewer bytes than asked without an error, and the rest of a key / nonce / salt stays zero. Every load of the source
// flows into the reader argument of io.ReadFull (directly, or through a parameter of a package-local part that does).
func checkRandomSourceReadOnlyThroughReadFull(c *Ctx, rule string) {
	p := c.P
	g := p.Global("snacl", "prng")
	if g == nil {
		c.Unresolved(rule, "snacl.prng")
		return
	}
	n := 0
	var okUse func(v ssa.Value, depth int) (bool, string)
	okUse = func(v ssa.Value, depth int) (bool, string) {
		for _, u := range usesOf(v) {
			switch x := u.(type) {
			case *ssa.ChangeInterface, *ssa.MakeInterface, *ssa.ChangeType:
				if ok, why := okUse(x.(ssa.Value), depth); !ok {
					return false, why
				}
			case *ssa.Call:
				if x.Call.IsInvoke() && x.Call.Value == v {
					return false, "calls " + x.Call.Method.Name() + " on it directly"
				}
				if calleeShort(&x.Call) == "ReadFull" && len(x.Call.Args) == 2 && x.Call.Args[0] == v {
					continue
				}
				h := x.Call.StaticCallee()
				if h == nil || len(h.Blocks) == 0 || fnPkgPath(h) != fnPkgPath(x.Parent()) || depth > 2 {
					return false, "hands it to " + calleeShort(&x.Call)
				}
				for i, a := range x.Call.Args {
					if a == v && i < len(h.Params) {
						if ok, why := okUse(h.Params[i], depth+1); !ok {
							return false, why
						}
					}
				}
			case *ssa.DebugRef:
			default:
				return false, "uses it in " + strings.TrimSpace(u.String())
			}
		}
		return true, ""
	}
	for _, fn := range p.FuncsIn("snacl") {
		for _, f := range Closures(fn) {
			for _, b := range f.Blocks {
				for _, ins := range b.Instrs {
					u, ok := ins.(*ssa.UnOp)
					if !ok || u.Op != token.MUL || u.X != ssa.Value(g) {
						continue
					}
					n++
					ok2, why := okUse(u, 0)
					c.Check(rule, "random-source-read-only-through-ReadFull:"+fn.Name(), u.Pos(), ok2,
						fnName(fn)+" reads the package random source other than through io.ReadFull ("+why+"): a short read is not an error for a bare Read, the rest of the key / nonce stays zero and the secrets sealed under it are recoverable by enumeration")
				}
			}
		}
	}
	c.Floor(rule, "loads of the snacl random source", n, 2)
}

// checkWipePrecedesDroppingReference: zero.Bytes(x.f) wipes what x.f points at; once x.f = nil has run, the same
// expression wipes nothing. No wipe of a field is dominated by a store of nil to that field of the same object.
func checkWipePrecedesDroppingReference(c *Ctx, rule string) {
	p := c.P
	n := 0
	isZeroCall := func(call *ssa.Call) bool {
		h := call.Call.StaticCallee()
		return h != nil && strings.HasSuffix(fnPkgPath(h), "internal/zero") && len(call.Call.Args) == 1
	}
	for _, pkg := range []string{"waddrmgr", "snacl"} {
		for _, top := range p.FuncsIn(pkg) {
			for _, fn := range Closures(top) {
				for _, ci := range callsOf(fn) {
					call, ok := ci.(*ssa.Call)
					if !ok || !isZeroCall(call) {
						continue
					}
					arg := stripConv(call.Call.Args[0])
					if sl, isSl := arg.(*ssa.Slice); isSl {
						arg = sl.X
					}
					ld, ok := arg.(*ssa.UnOp)
					if !ok || ld.Op != token.MUL {
						continue
					}
					fa, ok := ld.X.(*ssa.FieldAddr)
					if !ok {
						continue
					}
					n++
					bad := ""
					for _, b := range fn.Blocks {
						for i, ins := range b.Instrs {
							st, isSt := ins.(*ssa.Store)
							if !isSt || !isNilConst(st.Val) {
								continue
							}
							fa2, isFA := st.Addr.(*ssa.FieldAddr)
							if !isFA || fa2.Field != fa.Field || !sameValue(fa2.X, fa.X) {
								continue
							}
							before := (b == ld.Block() && i < instrIndex(ld)) || (b != ld.Block() && b.Dominates(ld.Block()))
							if before {
								bad = p.Pos(st.Pos())
							}
						}
					}
					_, fld := fieldAddrName(fa)
					c.Check(rule, "wipe-precedes-dropping-reference:"+fn.Name()+"/"+fld, call.Pos(), bad == "",
						fnName(fn)+" sets "+fld+" to nil (at "+bad+") before handing it to the wipe: the wipe gets a nil slice, the clear-text bytes the field pointed at are never overwritten")
				}
			}
		}
	}
	c.Floor(rule, "wipes of a field's referent", n, 5)
}

// checkSignerAmountIsIndexedInputValue: the amount a segwit / taproot signature commits to is the value of the very
// output the input spends: in AddAllInputScripts the amount handed to a spend helper is inputValues[i] for the same i
// that names the input — not something looked up by script (two coins of one address share the script).
func checkSignerAmountIsIndexedInputValue(c *Ctx, rule string) {
	p := c.P
	top := pkgFn(c, rule, "wallet/txauthor", "AddAllInputScripts")
	if top == nil {
		return
	}
	n := 0
	for _, fn := range p.regionOf(top) {
		for _, ci := range callsOf(fn) {
			call, ok := ci.(*ssa.Call)
			if !ok {
				continue
			}
			h := call.Call.StaticCallee()
			if h == nil {
				// the helper may be picked first and called through a function value
				hs := p.Callees(call)
				for _, g := range hs {
					if fnPkgPath(g) != fnPkgPath(top) || !strings.HasPrefix(g.Name(), "spend") {
						hs = nil
						break
					}
				}
				if len(hs) > 0 {
					h = hs[0]
				}
			}
			if h == nil || fnPkgPath(h) != fnPkgPath(top) || !strings.HasPrefix(h.Name(), "spend") {
				continue
			}
			ai, ii := -1, -1
			for i, prm := range h.Params {
				if b, isB := prm.Type().Underlying().(*types.Basic); isB {
					if b.Kind() == types.Int64 && ai < 0 {
						ai = i
					}
					if b.Kind() == types.Int {
						ii = i
					}
				}
			}
			if ai < 0 || ai >= len(call.Call.Args) {
				continue
			}
			n++
			amt := stripConv(call.Call.Args[ai])
			// the input's index may travel inside a small struct: then only the map rule below applies
			var idx ssa.Value
			if ii >= 0 && ii < len(call.Call.Args) {
				idx = call.Call.Args[ii]
			}
			bad := ""
			if ld, isLd := amt.(*ssa.UnOp); isLd && ld.Op == token.MUL && idx != nil {
				if ia, isIA := ld.X.(*ssa.IndexAddr); isIA {
					if !sameValue(ia.Index, idx) {
						bad = "indexed by " + describeValue(ia.Index) + ", the input by " + describeValue(idx)
					}
				}
			}
			if bad == "" {
				for _, o := range (&Slicer{P: p}).Origins(amt) {
					if _, isLk := o.(*ssa.Lookup); isLk {
						bad = "read from a map (" + describeValue(o) + ")"
					}
				}
			}
			c.Check(rule, "signer-amount-is-the-indexed-input-value:"+h.Name(), call.Pos(), bad == "",
				fnName(fn)+" hands "+h.Name()+" an amount that is not the value recorded for this input ("+bad+"): the signature hash commits to the amount, two coins paying one script with different amounts get each other's — the signature does not verify")
		}
	}
	c.Floor(rule, "amounts handed to the witness spend helpers", n, 1)
}

// checkLatestRecordWalksPastSeek: a transaction hash may be recorded in several blocks (the keys are hash‖height‖block
// hash); Seek(prefix) lands on the FIRST of them. Whatever latestTxRecord returns comes (also) from a cursor step
// taken after the seek.
func checkLatestRecordWalksPastSeek(c *Ctx, rule string) {
	p := c.P
	fn := wtxFn(c, rule, "latestTxRecord")
	if fn == nil {
		return
	}
	n := 0
	stepped := false
	var seen []string
	for _, f := range p.regionOf(fn) {
		for _, b := range f.Blocks {
			r, ok := b.Instrs[len(b.Instrs)-1].(*ssa.Return)
			if !ok || len(r.Results) == 0 || f != fn {
				continue
			}
			n++
			sl := &Slicer{P: p, ThroughReturns: func(h *ssa.Function) bool { return fnPkgPath(h) == fnPkgPath(fn) }}
			for _, o := range sl.Origins(effectiveResult(r, 0)) {
				var call *ssa.Call
				if ex, isEx := o.(*ssa.Extract); isEx {
					call, _ = ex.Tuple.(*ssa.Call)
				} else {
					call, _ = o.(*ssa.Call)
				}
				if call == nil {
					continue
				}
				nm := calleeShort(&call.Call)
				seen = append(seen, nm)
				if nm == "Next" || nm == "Prev" || nm == "Last" {
					stepped = true
				}
			}
		}
	}
	c.Check(rule, "latest-record-walks-past-seek", fn.Pos(), stepped,
		"what latestTxRecord returns comes only from "+strings.Join(dedup(seen), ", ")+": Seek lands on the oldest record of the hash, so a transaction recorded in two blocks is reported at its stale incidence")
	c.Floor(rule, "returns of latestTxRecord", n, 1)
}

// checkStampWriteUnconditional: updateSyncedTo reports success only after the Put of the stamp — two blocks at one
// height differ in hash and time, a "same height, nothing to do" exit keeps the replaced block's stamp on disk.
func checkStampWriteUnconditional(c *Ctx, rule string) {
	p := c.P
	fn := p.Func("waddrmgr", "", "updateSyncedTo")
	if fn == nil {
		c.Unresolved(rule, "waddrmgr.updateSyncedTo")
		return
	}
	bad := p.mustPassToSuccess(fn, nil, viaHelpers("Put", isCallNamed("Put"), true), nil)
	pos := fn.Pos()
	if bad != nil {
		pos = bad.Pos()
	}
	c.Check(rule, "stamp-write-unconditional:updateSyncedTo", pos, bad == nil,
		"updateSyncedTo can report success without writing the stamp: a tip replaced by another block of the same height keeps the old hash and time on disk, and a restart resumes from a block that is not on the chain")
}

// checkBlockBatchOnlyGrowsInAdd: the recovery scans what the batch holds when the tip is reached and moves the
// synced-to block over every block added; AddToBlockBatch therefore only appends — the batch is emptied by
// ResetBlockBatch after a scan, nowhere else.
func checkBlockBatchOnlyGrowsInAdd(c *Ctx, rule string) {
	p := c.P
	fn := p.Func("wallet", "RecoveryManager", "AddToBlockBatch")
	if fn == nil {
		c.Unresolved(rule, "wallet.(*RecoveryManager).AddToBlockBatch")
		return
	}
	n := 0
	for _, f := range p.regionOf(fn) {
		for _, b := range f.Blocks {
			for _, ins := range b.Instrs {
				st, ok := ins.(*ssa.Store)
				if !ok {
					continue
				}
				fa, ok := st.Addr.(*ssa.FieldAddr)
				if !ok {
					continue
				}
				if _, fld := fieldAddrName(fa); fld != "blockBatch" {
					continue
				}
				n++
				okV := false
				if call, isCall := st.Val.(*ssa.Call); isCall && calleeShort(&call.Call) == "append" && len(call.Call.Args) > 0 {
					if _, f2, _, isF := fieldOf(call.Call.Args[0]); isF && f2 == "blockBatch" {
						okV = true
					}
				}
				c.Check(rule, "block-batch-only-grows-in-add", st.Pos(), okV,
					fnName(f)+" assigns the block batch something other than append(batch, block): blocks added since the last scan are dropped, yet the synced-to block moves over them — their payments are never found")
			}
		}
	}
	c.Floor(rule, "stores to the block batch in AddToBlockBatch", n, 1)
}

// checkDecodedOutPointHasBothHalves: an outpoint read back from key bytes has its hash copied in and its index
// stored; an outpoint with only the hash names output 0 of the transaction, whichever output the key was written for.
func checkDecodedOutPointHasBothHalves(c *Ctx, rule string) {
	p := c.P
	n := 0
	for _, top := range p.FuncsIn("wtxmgr") {
		for _, fn := range Closures(top) {
			type st struct {
				hashCopied token.Pos
				index      bool
				escapes    bool
			}
			byBase := map[ssa.Value]*st{}
			get := func(b ssa.Value) *st {
				if byBase[b] == nil {
					byBase[b] = &st{}
				}
				return byBase[b]
			}
			for _, b := range fn.Blocks {
				for _, ins := range b.Instrs {
					fa, ok := ins.(*ssa.FieldAddr)
					if !ok {
						continue
					}
					tn, fld := fieldAddrName(fa)
					if tn != "OutPoint" {
						continue
					}
					for _, u := range usesOf(fa) {
						switch x := u.(type) {
						case *ssa.Slice:
							if fld != "Hash" {
								continue
							}
							for _, uu := range usesOf(x) {
								if call, isCall := uu.(*ssa.Call); isCall && calleeShort(&call.Call) == "copy" && len(call.Call.Args) == 2 && call.Call.Args[0] == ssa.Value(x) {
									get(fa.X).hashCopied = call.Pos()
								}
							}
						case *ssa.Store:
							if fld == "Index" && x.Addr == ssa.Value(fa) {
								get(fa.X).index = true
							}
						}
					}
				}
			}
			for base, s := range byBase {
				if s.hashCopied == token.NoPos {
					continue
				}
				// the object is completed elsewhere if its address is handed to a call
				for _, u := range usesOf(base) {
					if call, isCall := u.(*ssa.Call); isCall {
						for _, a := range call.Call.Args {
							if a == base {
								s.escapes = true
							}
						}
					}
				}
				n++
				c.Check(rule, "decoded-outpoint-has-both-halves:"+fn.Name(), s.hashCopied, s.index || s.escapes,
					fnName(fn)+" copies key bytes into an outpoint's hash and never sets its index: every outpoint it yields names output 0 — a lease, credit or spend recorded for another output of the transaction is attributed to the first")
			}
		}
	}
	c.Floor(rule, "outpoints decoded from key bytes", n, 1)
}

// checkSpenderListDecodeRunsToExhaustion: the value of the unmined-inputs index is a concatenation of spender hashes;
// the decode loop of fetchUnminedInputSpendTxHashes ends only when the raw value is used up — an exit that looks at
// the result's own length or capacity returns a prefix of the spenders, the rest survive a conflict's confirmation.
func checkSpenderListDecodeRunsToExhaustion(c *Ctx, rule string) {
	p := c.P
	fn := wtxFn(c, rule, "fetchUnminedInputSpendTxHashes")
	if fn == nil {
		return
	}
	n := 0
	for _, f := range p.regionOf(fn) {
		for _, l := range loopsOf(f) {
			for b := range l.Blocks {
				iff, ok := b.Instrs[len(b.Instrs)-1].(*ssa.If)
				if !ok {
					continue
				}
				exits := false
				for _, s := range b.Succs {
					if !l.Blocks[s] {
						exits = true
					}
				}
				if !exits {
					continue
				}
				n++
				var bad []string
				var walk func(v ssa.Value, depth int)
				walk = func(v ssa.Value, depth int) {
					if depth > 6 {
						return
					}
					switch x := stripConv(v).(type) {
					case *ssa.BinOp:
						walk(x.X, depth+1)
						walk(x.Y, depth+1)
					case *ssa.UnOp:
						walk(x.X, depth+1)
					case *ssa.Phi:
						for _, e := range x.Edges {
							walk(e, depth+1)
						}
					case *ssa.Call:
						nm := calleeShort(&x.Call)
						if nm == "cap" {
							bad = append(bad, "cap(…)")
						}
						if nm == "len" && len(x.Call.Args) == 1 {
							if sl, isS := x.Call.Args[0].Type().Underlying().(*types.Slice); isS {
								if nmd, isN := sl.Elem().(*types.Named); isN && nmd.Obj().Name() == "Hash" {
									bad = append(bad, "len(result)")
								}
							}
						}
					}
				}
				walk(iff.Cond, 0)
				c.Check(rule, "spender-list-decode-runs-to-exhaustion", iff.Pos(), len(bad) == 0,
					"the decode loop of fetchUnminedInputSpendTxHashes can end on "+strings.Join(dedup(bad), ", ")+" with raw bytes left: only a prefix of the recorded spenders of an outpoint is returned, the others (and their descendants) survive when a conflicting transaction confirms")
			}
		}
	}
	c.Floor(rule, "exits of the spender list decode loop", n, 1)
}

// checkIssuingMutexReleasedByItsTaker: the issuing critical section spans derive, commit and the address manager's
// commit callback (C09-R1). The mutex is given back by the function activation that took it: an unlock placed in
// another function — the transaction's own closure, say — runs when that function returns, before the commit.
func checkIssuingMutexReleasedByItsTaker(c *Ctx, rule string) {
	p := c.P
	n := 0
	onIssuingMutex := func(ci ssa.CallInstruction) bool {
		cc := ci.Common()
		if cc.IsInvoke() || len(cc.Args) == 0 {
			return false
		}
		fa, ok := cc.Args[0].(*ssa.FieldAddr)
		if !ok {
			return false
		}
		_, fld := fieldAddrName(fa)
		return fld == "newAddrMtx"
	}
	for _, top := range p.FuncsIn("wallet") {
		for _, fn := range Closures(top) {
			locks := false
			var unlocks []ssa.CallInstruction
			for _, ci := range callsOf(fn) {
				if !onIssuingMutex(ci) {
					continue
				}
				switch calleeShort(ci.Common()) {
				case "Lock":
					locks = true
				case "Unlock":
					unlocks = append(unlocks, ci)
				}
			}
			for _, u := range unlocks {
				n++
				c.Check(rule, "issuing-mutex-released-by-its-taker:"+fnName(outermost(fn)), u.Pos(), locks,
					fnName(fn)+" unlocks the address-issuing mutex without having locked it: the unlock runs when this function returns — for a transaction closure that is before the commit and before the commit callback that advances the in-memory index, so a concurrent request derives the same address")
			}
		}
	}
	c.Floor(rule, "unlocks of the issuing mutex", n, 3)
}
