package main

import (
	"go/token"
	"go/types"

	"golang.org/x/tools/go/ssa"
)

// Slicer computes backward def-use slices of SSA values.
type Slicer struct {
	P *Program
	// ThroughCallArgs: when visiting a call result, also continue into the
	// call's arguments that satisfy this predicate (e.g. error-typed args of
	// wrapping helpers). nil = calls are terminals.
	ThroughCallArgs func(call *ssa.Call, arg ssa.Value) bool
	// ThroughBinOp: continue through arithmetic.
	ThroughBinOp bool
	// ThroughFields: a load of x.f continues into stores to the same field
	// address instruction (rare); default false -> field loads are terminals.
	// InterProc: parameters continue into the actual arguments at all call sites.
	InterProc bool
	// ThroughReturns: a call to a repo function with a body continues into its
	// returned values (for the result index used).
	ThroughReturns func(callee *ssa.Function) bool
	// KeepExtract: an extracted tuple component of a call is reported as the
	// terminal (so that the result index is known) instead of the call.
	KeepExtract bool
	// ThroughFieldsOfAllocs: a load of a field of a local struct variable
	// continues into the values stored to that field.
	ThroughFieldsOfAllocs bool
	// ThroughDeref: a load through a pointer that is itself a computed value
	// (call result, parameter) continues into the pointer's provenance.
	ThroughDeref bool
	// ThroughRange: values produced by iterating / indexing a collection continue into the collection.
	ThroughRange bool
	maxDepth     int
}

// Origins returns the terminal values of the backward slice of v.
func (s *Slicer) Origins(v ssa.Value) []ssa.Value {
	seen := map[ssa.Value]bool{}
	var out []ssa.Value
	var visit func(v ssa.Value, resIdx int, depth int)
	addTerm := func(v ssa.Value) {
		out = append(out, v)
	}
	visit = func(v ssa.Value, resIdx int, depth int) {
		if v == nil || seen[v] {
			return
		}
		seen[v] = true
		switch x := v.(type) {
		case *ssa.Phi:
			for _, e := range x.Edges {
				visit(e, resIdx, depth)
			}
		case *ssa.ChangeType:
			visit(x.X, resIdx, depth)
		case *ssa.ChangeInterface:
			visit(x.X, resIdx, depth)
		case *ssa.MakeInterface:
			visit(x.X, resIdx, depth)
		case *ssa.Convert:
			visit(x.X, resIdx, depth)
		case *ssa.TypeAssert:
			visit(x.X, resIdx, depth)
		case *ssa.Slice:
			visit(x.X, resIdx, depth)
		case *ssa.Next:
			if s.ThroughRange {
				visit(x.Iter, resIdx, depth)
				return
			}
			addTerm(v)
		case *ssa.Range:
			if s.ThroughRange {
				visit(x.X, resIdx, depth)
				return
			}
			addTerm(v)
		case *ssa.Lookup:
			if s.ThroughRange {
				visit(x.X, resIdx, depth)
				return
			}
			addTerm(v)
		case *ssa.Index:
			if s.ThroughRange {
				visit(x.X, resIdx, depth)
				return
			}
			addTerm(v)
		case *ssa.Extract:
			if s.KeepExtract {
				if call, isCall := x.Tuple.(*ssa.Call); isCall {
					addTerm(x)
					if s.ThroughCallArgs != nil {
						for _, a := range call.Call.Args {
							if s.ThroughCallArgs(call, a) {
								visit(a, -1, depth)
							}
						}
					}
					return
				}
			}
			visit(x.Tuple, x.Index, depth)
		case *ssa.UnOp:
			if x.Op == token.MUL {
				// load
				switch a := x.X.(type) {
				case *ssa.Alloc:
					n := 0
					for _, st := range storesTo(a) {
						visit(st.Val, resIdx, depth)
						n++
					}
					if n == 0 && s.ThroughFieldsOfAllocs {
						// a struct built field by field (composite literal) and used whole: what its fields were given
						for _, u := range usesOf(a) {
							fa2, ok := u.(*ssa.FieldAddr)
							if !ok {
								continue
							}
							for _, uu := range usesOf(fa2) {
								if st, ok := uu.(*ssa.Store); ok && st.Addr == ssa.Value(fa2) {
									visit(st.Val, resIdx, depth)
									n++
								}
							}
						}
					}
					if n == 0 {
						addTerm(v)
					}
					return
				case *ssa.FreeVar:
					// captured variable: stores in this closure and in the parent
					n := 0
					for _, val := range freeVarStores(a) {
						visit(val, resIdx, depth)
						n++
					}
					if n == 0 {
						addTerm(v)
					}
					return
				}
				if s.P != nil {
					if vals := s.P.boundFieldStores(x); len(vals) > 0 {
						for _, val := range vals {
							visit(val, resIdx, depth)
						}
						return
					}
				}
				if fa, ok := x.X.(*ssa.FieldAddr); ok && s.ThroughFieldsOfAllocs {
					if al, ok := fa.X.(*ssa.Alloc); ok {
						n := 0
						for _, u := range usesOf(al) {
							fa2, ok := u.(*ssa.FieldAddr)
							if !ok || fa2.Field != fa.Field {
								continue
							}
							for _, uu := range usesOf(fa2) {
								if st, ok := uu.(*ssa.Store); ok && st.Addr == ssa.Value(fa2) {
									visit(st.Val, resIdx, depth)
									n++
								}
							}
						}
						if n > 0 {
							return
						}
					}
				}
				if s.ThroughDeref {
					switch x.X.(type) {
					case *ssa.Extract, *ssa.Call, *ssa.Parameter, *ssa.Phi:
						visit(x.X, resIdx, depth)
						return
					}
				}
				addTerm(v)
				return
			}
			if x.Op == token.NOT || x.Op == token.SUB || x.Op == token.XOR {
				visit(x.X, resIdx, depth)
				return
			}
			addTerm(v)
		case *ssa.BinOp:
			if s.ThroughBinOp {
				visit(x.X, resIdx, depth)
				visit(x.Y, resIdx, depth)
				return
			}
			addTerm(v)
		case *ssa.Call:
			addTerm(v)
			if s.ThroughCallArgs != nil {
				for _, a := range x.Call.Args {
					if s.ThroughCallArgs(x, a) {
						visit(a, -1, depth)
					}
				}
			}
			if s.ThroughReturns != nil && depth < 6 {
				if callee := x.Call.StaticCallee(); callee != nil && len(callee.Blocks) > 0 && s.ThroughReturns(callee) {
					for _, b := range callee.Blocks {
						for _, ins := range b.Instrs {
							if r, ok := ins.(*ssa.Return); ok {
								idx := resIdx
								if idx < 0 {
									idx = 0
								}
								if idx < len(r.Results) {
									visit(r.Results[idx], -1, depth+1)
								}
							}
						}
					}
				}
			}
		case *ssa.Parameter:
			if s.InterProc && depth < 6 {
				fn := x.Parent()
				idx := paramIndex(fn, x)
				sites := s.P.callers(fn)
				if idx >= 0 && len(sites) > 0 {
					for _, site := range sites {
						args := site.Common().Args
						// for invoke-mode calls the receiver is not in Args
						ai := idx
						if site.Common().IsInvoke() {
							ai = idx - 1
						}
						if ai >= 0 && ai < len(args) {
							visit(args[ai], -1, depth+1)
						} else if ai == -1 {
							visit(site.Common().Value, -1, depth+1)
						}
					}
					return
				}
			}
			addTerm(v)
		default:
			addTerm(v)
		}
	}
	visit(v, -1, 0)
	return out
}

func paramIndex(fn *ssa.Function, p *ssa.Parameter) int {
	for i, q := range fn.Params {
		if q == p {
			return i
		}
	}
	return -1
}

// storesTo returns the Store instructions whose address is the alloc (in the
// allocating function and in closures capturing it).
func storesTo(a *ssa.Alloc) []*ssa.Store {
	var out []*ssa.Store
	if a.Referrers() == nil {
		return nil
	}
	for _, r := range *a.Referrers() {
		switch x := r.(type) {
		case *ssa.Store:
			if x.Addr == a {
				out = append(out, x)
			}
		case *ssa.MakeClosure:
			fn, ok := x.Fn.(*ssa.Function)
			if !ok {
				continue
			}
			for i, b := range x.Bindings {
				if b == a && i < len(fn.FreeVars) {
					out = append(out, freeVarStoreInstrs(fn.FreeVars[i])...)
				}
			}
		}
	}
	return out
}

func freeVarStoreInstrs(fv *ssa.FreeVar) []*ssa.Store {
	var out []*ssa.Store
	if fv.Referrers() == nil {
		return nil
	}
	for _, r := range *fv.Referrers() {
		switch x := r.(type) {
		case *ssa.Store:
			if x.Addr == fv {
				out = append(out, x)
			}
		case *ssa.MakeClosure:
			fn, ok := x.Fn.(*ssa.Function)
			if !ok {
				continue
			}
			for i, b := range x.Bindings {
				if b == fv && i < len(fn.FreeVars) {
					out = append(out, freeVarStoreInstrs(fn.FreeVars[i])...)
				}
			}
		}
	}
	return out
}

// freeVarStores: all values stored to the captured variable, from the
// defining function downwards.
func freeVarStores(fv *ssa.FreeVar) []ssa.Value {
	// find the root alloc by walking up the closure chain
	root := freeVarRoot(fv)
	var out []ssa.Value
	if a, ok := root.(*ssa.Alloc); ok {
		for _, st := range storesTo(a) {
			out = append(out, st.Val)
		}
		return out
	}
	for _, st := range freeVarStoreInstrs(fv) {
		out = append(out, st.Val)
	}
	return out
}

// freeVarRoot finds the value bound to fv at the MakeClosure that created fv's function.
func freeVarRoot(fv *ssa.FreeVar) ssa.Value {
	fn := fv.Parent()
	parent := fn.Parent()
	if parent == nil {
		return fv
	}
	idx := -1
	for i, f := range fn.FreeVars {
		if f == fv {
			idx = i
		}
	}
	for _, b := range parent.Blocks {
		for _, ins := range b.Instrs {
			mc, ok := ins.(*ssa.MakeClosure)
			if !ok || mc.Fn != fn {
				continue
			}
			if idx >= 0 && idx < len(mc.Bindings) {
				bv := mc.Bindings[idx]
				if fv2, ok := bv.(*ssa.FreeVar); ok {
					return freeVarRoot(fv2)
				}
				return bv
			}
		}
	}
	return fv
}

// fieldOf: if v is a load of a struct field (x.f) or a Field extraction,
// returns the struct's named type name and the field name.
func fieldOf(v ssa.Value) (typeName, field string, base ssa.Value, ok bool) {
	switch x := v.(type) {
	case *ssa.UnOp:
		if x.Op == token.MUL {
			if fa, ok := x.X.(*ssa.FieldAddr); ok {
				tn, fn := fieldAddrName(fa)
				return tn, fn, fa.X, true
			}
		}
	case *ssa.Field:
		st := x.X.Type().Underlying().(*types.Struct)
		tn := ""
		if n, ok := x.X.Type().(*types.Named); ok {
			tn = n.Obj().Name()
		}
		return tn, st.Field(x.Field).Name(), x.X, true
	}
	return "", "", nil, false
}

func fieldAddrName(fa *ssa.FieldAddr) (typeName, field string) {
	pt := fa.X.Type().Underlying().(*types.Pointer)
	st := pt.Elem().Underlying().(*types.Struct)
	tn := ""
	if n, ok := pt.Elem().(*types.Named); ok {
		tn = n.Obj().Name()
	}
	return tn, st.Field(fa.Field).Name()
}

// usesOf returns the instructions referring to v (nil-safe).
func usesOf(v ssa.Value) []ssa.Instruction {
	r := v.Referrers()
	if r == nil {
		return nil
	}
	return *r
}
