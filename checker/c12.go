package main

import (
	"fmt"
	"go/token"
	"os"
	"strings"

	"golang.org/x/tools/go/ssa"
)

func init() {
	register(&propSpec{
		ID: "C12",
		Explanation: "Decides structural necessary conditions of the lease property in wtxmgr: (R1) all five balance/UTXO passes consult the lease state with skip semantics and the first balance pass subtracts a leased credit exactly once; " +
			"(R2) every comparison of the store clock with a lease expiry (isLockedOutput, DeleteExpiredLockedOutputs, ListLockedOutputs) has the same normalised relation 'still leased iff now < expiry', so balance, listing and sweeping flip at the same instant, and each site acts on the right side of it; " +
			"(R3) LockOutput writes only for known outputs that are unleased or leased to the same id, UnlockOutput deletes only for known outputs leased to the same id and otherwise returns the dedicated error; " +
			"(R4) a confirmed spend releases the lease of every input (unconditional per-input release on every success path of insertMinedTx); (R5) only lockOutput/unlockOutput write the lease bucket, and the lease value layout of writer and reader agree. " +
			"NOT decided: behaviour over interleavings/histories, boundary semantics beyond agreement.",
		Assumptions: []string{"time source is Store.clock; 'now' operands are recognised by provenance from a Now() call", "call graph over-approximates callees"},
		Run:         runC12,
	})
}

// timeCmp describes a time comparison used as a branch condition.
type timeCmp struct {
	call  *ssa.Call
	canon string // "now<exp", "exp<now", "now==exp", or "?"
	fn    *ssa.Function
}

func timeRole(p *Program, v ssa.Value) string {
	sl := &Slicer{P: p, InterProc: true}
	for _, o := range sl.Origins(v) {
		if c, ok := o.(*ssa.Call); ok && calleeShort(&c.Call) == "Now" {
			return "now"
		}
	}
	return "exp"
}

func findTimeCmps(p *Program, fns []*ssa.Function) []timeCmp {
	var out []timeCmp
	for _, top := range fns {
		for _, fn := range Closures(top) {
			for _, b := range fn.Blocks {
				for _, ins := range b.Instrs {
					call, ok := ins.(*ssa.Call)
					if !ok {
						continue
					}
					f := call.Call.StaticCallee()
					if f == nil || fnPkgPath(f) != "time" || recvName(f) != "Time" {
						continue
					}
					m := f.Name()
					if m != "Before" && m != "After" && m != "Equal" {
						continue
					}
					a, bb := timeRole(p, call.Call.Args[0]), timeRole(p, call.Call.Args[1])
					canon := "?"
					switch {
					case m == "Before" && a == "now" && bb == "exp", m == "After" && a == "exp" && bb == "now":
						canon = "now<exp"
					case m == "Before" && a == "exp" && bb == "now", m == "After" && a == "now" && bb == "exp":
						canon = "exp<now"
					case m == "Equal":
						canon = "now==exp"
					}
					out = append(out, timeCmp{call, canon, fn})
				}
			}
		}
	}
	return out
}

// edgeIsCmp: edge (from,si) is taken when the time comparison `call` evaluates to want.
func edgeIsCmp(from *ssa.BasicBlock, si int, call *ssa.Call, want bool) bool {
	f := edgeFactOf(from, si)
	if f == nil || f.V != ssa.Value(call) {
		return false
	}
	return (f.Kind == "true") == want
}

func runC12(c *Ctx) {
	p := c.P
	checkSpendPasses(c, "C12-R1", true)

	// R2: expiry agreement
	isLocked := wtxFn(c, "C12-R2", "isLockedOutput")
	delExp := wtxFn(c, "C12-R2", "DeleteExpiredLockedOutputs")
	list := wtxFn(c, "C12-R2", "ListLockedOutputs")
	if isLocked != nil && delExp != nil && list != nil {
		// the sweep's / the listing's test may sit in a same-package helper they call (extracted "collect" step)
		roleOf := map[*ssa.Function]*ssa.Function{isLocked: isLocked, delExp: delExp, list: list}
		tops := []*ssa.Function{isLocked, delExp, list}
		for _, top := range []*ssa.Function{delExp, list} {
			for _, ci := range callsOf(top) {
				g := ci.Common().StaticCallee()
				if g == nil || g.Pkg != top.Pkg || roleOf[g] != nil || len(g.Blocks) == 0 {
					continue
				}
				if len(findTimeCmps(p, []*ssa.Function{g})) > 0 {
					roleOf[g] = top
					tops = append(tops, g)
				}
			}
		}
		cmps := findTimeCmps(p, tops)
		c.Floor("C12-R2", "clock-vs-expiry comparisons", len(cmps), 3)
		for _, tc := range cmps {
			role := roleOf[outermost(tc.fn)]
			c.Check("C12-R2", "expiry-relation:"+fnName(role), tc.call.Pos(), tc.canon == "now<exp",
				"lease expiry test is not the common relation 'still leased iff now is before expiry' (normalised: "+tc.canon+"): balance, listing and sweeping would flip at different instants")
			switch role {
			case isLocked:
				// returns with third result true only on the now<exp edge
				for _, b := range tc.fn.Blocks {
					for _, ins := range b.Instrs {
						r, ok := ins.(*ssa.Return)
						if !ok || len(r.Results) < 3 {
							continue
						}
						if bv, isC := constBool(r.Results[2]); isC && !bv {
							continue
						}
						ok2 := !reachableAvoiding(tc.fn, nil, r, func(from *ssa.BasicBlock, si int) bool { return edgeIsCmp(from, si, tc.call, true) })
						c.Check("C12-R2", "isLockedOutput-true-only-before-expiry", r.Pos(), ok2, "isLockedOutput can report an output as leased without the 'now before expiry' outcome")
					}
				}
			case delExp, list:
				wantEdge := role == list // list keeps un-expired; sweep collects expired
				// the append (store to captured slice) is reachable only on the right edge
				n := 0
				for _, b := range tc.fn.Blocks {
					for _, ins := range b.Instrs {
						st, ok := ins.(*ssa.Store)
						if !ok {
							continue
						}
						if _, isFV := st.Addr.(*ssa.FreeVar); !isFV {
							continue
						}
						n++
						ok2 := !reachableAvoiding(tc.fn, nil, st, func(from *ssa.BasicBlock, si int) bool { return edgeIsCmp(from, si, tc.call, wantEdge) })
						what := "DeleteExpiredLockedOutputs collects a lease for deletion without the 'expired' outcome"
						if wantEdge {
							what = "ListLockedOutputs lists a lease without the 'still leased' outcome"
						}
						c.Check("C12-R2", "acts-on-right-side:"+fnName(role), st.Pos(), ok2, what)
					}
				}
				if n == 0 {
					c.Check("C12-R2", "acts-on-right-side:"+fnName(role), tc.fn.Pos(), false, "no collection into the result found (undecided)")
				}
			}
		}
		// sweep deletes each collected output
		checkPerIteration(c, "C12-R2", delExp, "var:expiredOutputs", "unlockOutput", 1, "an expired lease collected by the sweep is not deleted")
		checkCallbackPointersNotRetained(c, "C12-R2")
	}

	checkLeaseReleaseNamesSpentOutpoint(c, "C12-R4")
	checkDecodedOutPointHasBothHalves(c, "C12-R4")
	// the wallet lists every live lease
	checkNoEarlySuccessExit(c, "C12-R3", "lease-listing-visits-every-lease", c.P.Func("wallet", "Wallet", "ListLeasedOutputs"), "",
		"Wallet.ListLeasedOutputs can stop with a success answer before every lease was looked at: one stale lease record hides every live lease that sorts after it")
	// R3: ownership guards
	lo := wtxFn(c, "C12-R3", "LockOutput")
	uo := wtxFn(c, "C12-R3", "UnlockOutput")
	idEq := func(from *ssa.BasicBlock, si int, wantEqual bool) bool {
		f := edgeFactOf(from, si)
		if f == nil {
			return false
		}
		b, ok := f.V.(*ssa.BinOp)
		if !ok || (b.Op != token.EQL && b.Op != token.NEQ) {
			return false
		}
		if !(isResultOfCall(b.X, "isLockedOutput", 0) || isResultOfCall(b.Y, "isLockedOutput", 0)) {
			return false
		}
		eq := (b.Op == token.EQL) == (f.Kind == "true")
		return eq == wantEqual
	}
	var factIs func(from *ssa.BasicBlock, si int, callee string, idx int, kind string) bool
	factIs = func(from *ssa.BasicBlock, si int, callee string, idx int, kind string) bool {
		f := edgeFactOf(from, si)
		if f == nil {
			return false
		}
		if f.Kind == kind && isResultOfCall(f.V, callee, idx) {
			return true
		}
		// the test sits in a part that reports it through its error: on the part's nil-error edge the fact holds when no
		// success return of the part is reachable around the fact's own edge
		if f.Kind != "nil" {
			return false
		}
		ex, ok := stripConv(f.V).(*ssa.Extract)
		if !ok {
			return false
		}
		hc, ok := ex.Tuple.(*ssa.Call)
		if !ok {
			return false
		}
		h := hc.Call.StaticCallee()
		if h == nil || len(h.Blocks) == 0 || h.Object() == nil || h.Object().Exported() || fnPkgPath(h) != fnPkgPath(from.Parent()) || ex.Index != h.Signature.Results().Len()-1 {
			return false
		}
		q := &PathQuery{Fn: h, EdgeBarrier: func(b2 *ssa.BasicBlock, s2 int) bool { return factIs(b2, s2, callee, idx, kind) }, Target: p.nonErrorReturn()}
		return len(callsNamed(h, callee)) > 0 && len(q.From(nil)) == 0
	}
	if lo != nil {
		for _, w := range callsNamed(lo, "lockOutput") {
			ok := !reachableAvoiding(lo, nil, w, func(from *ssa.BasicBlock, si int) bool { return factIs(from, si, "isKnownOutput", -1, "true") })
			c.Check("C12-R3", "lease-only-known-output", w.Pos(), ok, "LockOutput can write a lease for an output the wallet does not know")
			ok = !reachableAvoiding(lo, nil, w, func(from *ssa.BasicBlock, si int) bool {
				return factIs(from, si, "isLockedOutput", 2, "false") || idEq(from, si, true)
			})
			c.Check("C12-R3", "lease-only-if-free-or-same-id", w.Pos(), ok, "LockOutput can overwrite a lease held by a different identifier")
		}
		c.Floor("C12-R3", "lockOutput calls in LockOutput", len(callsNamed(lo, "lockOutput")), 1)
	}
	if uo != nil {
		for _, w := range callsNamed(uo, "unlockOutput") {
			ok := !reachableAvoiding(uo, nil, w, func(from *ssa.BasicBlock, si int) bool { return factIs(from, si, "isKnownOutput", -1, "true") })
			c.Check("C12-R3", "release-only-known-output", w.Pos(), ok, "UnlockOutput can delete a lease for an unknown output")
			ok = !reachableAvoiding(uo, nil, w, func(from *ssa.BasicBlock, si int) bool { return idEq(from, si, true) })
			c.Check("C12-R3", "release-only-same-id", w.Pos(), ok, "UnlockOutput can release a lease held by a different identifier")
		}
		c.Floor("C12-R3", "unlockOutput calls in UnlockOutput", len(callsNamed(uo, "unlockOutput")), 1)
		// different id -> dedicated error
		n := 0
		for _, b := range uo.Blocks {
			for si := range b.Succs {
				if !idEq(b, si, false) {
					continue
				}
				n++
				q := &PathQuery{Fn: uo}
				q.Target = func(ins ssa.Instruction, via *ssa.BasicBlock) bool {
					r, ok := ins.(*ssa.Return)
					if !ok {
						return false
					}
					return !isGlobalLoad(resolvePhi(r.Results[0], r.Block(), via), "ErrOutputUnlockNotAllowed")
				}
				hits := exploreFromBlock(q, b.Succs[si], b)
				c.Check("C12-R3", "release-other-id-refused", lastPos(b), len(hits) == 0, "releasing under a different identifier does not return ErrOutputUnlockNotAllowed")
			}
		}
		c.Floor("C12-R3", "different-id branch in UnlockOutput", n, 1)
	}
	if lo != nil {
		// leased to another id -> ErrOutputAlreadyLocked
		n := 0
		for _, b := range lo.Blocks {
			for si := range b.Succs {
				if !idEq(b, si, false) {
					continue
				}
				n++
				q := &PathQuery{Fn: lo}
				q.Target = func(ins ssa.Instruction, via *ssa.BasicBlock) bool {
					r, ok := ins.(*ssa.Return)
					if !ok {
						return false
					}
					return !isGlobalLoad(resolvePhi(r.Results[1], r.Block(), via), "ErrOutputAlreadyLocked")
				}
				hits := exploreFromBlock(q, b.Succs[si], b)
				c.Check("C12-R3", "lease-other-id-refused", lastPos(b), len(hits) == 0, "leasing an output held by a different identifier does not return ErrOutputAlreadyLocked")
			}
		}
		c.Floor("C12-R3", "different-id branch in LockOutput", n, 1)
		// unknown -> ErrUnknownOutput
		for _, fn := range []*ssa.Function{lo, uo} {
			if fn == nil {
				continue
			}
			for _, b := range fn.Blocks {
				for si := range b.Succs {
					if !factIs(b, si, "isKnownOutput", -1, "false") {
						continue
					}
					q := &PathQuery{Fn: fn}
					q.Target = func(ins ssa.Instruction, via *ssa.BasicBlock) bool {
						r, ok := ins.(*ssa.Return)
						if !ok {
							return false
						}
						return !isGlobalLoad(resolvePhi(r.Results[len(r.Results)-1], r.Block(), via), "ErrUnknownOutput")
					}
					hits := exploreFromBlock(q, b.Succs[si], b)
					c.Check("C12-R3", "unknown-output-refused:"+fn.Name(), lastPos(b), len(hits) == 0, "an unknown output is not refused with ErrUnknownOutput")
				}
			}
		}
	}

	checkKnownOutput(c, "C12-R3")

	// R4: confirmed spend releases every input's lease
	checkLeaseRelease(c, "C12-R4")
	checkRescanSetIncludesLeasedOutputs(c, "C12-R4")

	// R5: writers of the lease bucket
	n := 0
	for _, fn := range p.FuncsIn("wtxmgr") {
		usesLO := false
		for _, b := range fn.Blocks {
			for _, ins := range b.Instrs {
				if call, ok := ins.(*ssa.Call); ok {
					for _, a := range call.Call.Args {
						if isGlobalLoad(a, "bucketLockedOutputs") {
							usesLO = true
						}
					}
				}
			}
		}
		if !usesLO {
			continue
		}
		writes := false
		for _, ci := range callsOf(fn) {
			if name, ok := isDBSource(ci.Common()); ok && (strings.HasSuffix(name, ".Put") || strings.HasSuffix(name, ".Delete")) {
				writes = true
			}
		}
		if !writes {
			continue
		}
		n++
		ok := fn.Name() == "lockOutput" || fn.Name() == "unlockOutput"
		c.Check("C12-R5", "lease-bucket-writer:"+fnName(fn), fn.Pos(), ok, "a function other than lockOutput/unlockOutput writes the lease bucket")
	}
	c.Floor("C12-R5", "writers of the lease bucket", n, 2)
	// who may end a lease: its owner (UnlockOutput), the expiry sweep (DeleteExpiredLockedOutputs) and a confirmed spend
	// of the output (insertMinedTx) — each with its own guard rule above. A release from anywhere else (removal of an
	// unconfirmed spender, a credit being recorded again, a rollback...) ends a lease that was neither released nor
	// expired nor spent.
	if ul := wtxFn(c, "C12-R5", "unlockOutput"); ul != nil {
		var roots []*ssa.Function
		for _, name := range []string{"UnlockOutput", "DeleteExpiredLockedOutputs", "insertMinedTx"} {
			if f := wtxFn(c, "C12-R5", name); f != nil {
				roots = append(roots, f)
			}
		}
		nRel := 0
		for _, cs := range p.realCallers(ul) {
			nRel++
			caller := outermost(cs.Parent())
			ok := false
			for _, r := range roots {
				if p.inRegion(r, caller) {
					ok = true
				}
			}
			c.Check("C12-R5", "lease-released-only-by-owner-expiry-or-confirmed-spend:"+fnName(caller), cs.Pos(), ok,
				fnName(caller)+" deletes a lease although it is neither the owner's release, the expiry sweep nor the confirmation of a spend: the output becomes selectable (and is counted in the balance) while its lease is still running")
		}
		c.Floor("C12-R5", "lease release sites", nRel, 3)
	}
	checkLeaseLayout(c)
	checkStoredExpiryIsTheGivenInstant(c, "C12-R5")
	checkLeaseNotMirroredIntoTimelessLockSet(c, "C12-R2")
	checkLeaseRequestsReachTheStore(c, "C12-R3")
	checkLeaseTestNamesJudgedOutput(c, "C12-R1")
}

// checkLeaseRelease: every success path of insertMinedTx passes a per-input unconditional unlockOutput.
func checkLeaseRelease(c *Ctx, rule string) {
	p := c.P
	ins := wtxFn(c, rule, "insertMinedTx")
	ul := wtxFn(c, rule, "unlockOutput")
	_ = ul
	if ins == nil || ul == nil {
		return
	}
	// every loop (in functions reachable from insertMinedTx) that calls unlockOutput must do so for every element
	n := 0
	for f := range p.reachSet(ins) {
		if !p.InRepo(f) || shortPkg(fnPkgPath(f)) != "wtxmgr" {
			continue
		}
		calls := callsNamed(f, "unlockOutput")
		if len(calls) == 0 {
			continue
		}
		loops := loopsOf(f)
		for _, call := range calls {
			l := innermostLoopOf(loops, call)
			if l == nil {
				c.Check(rule, "lease-release-per-input:"+fnName(f), call.Pos(), false, "unlockOutput on the confirm path is not inside a loop over the inputs")
				continue
			}
			n++
			badIter := l.MustPassPerIteration(p, isCallNamed("unlockOutput"))
			okElem := l.elemTypeName() == "TxIn"
			c.Check(rule, "lease-release-per-input:"+fnName(f), call.Pos(), badIter == "" && okElem,
				fmt.Sprintf("the lease release on the confirm path does not run for every input of the confirmed transaction (loop over %s; %s)", l.elemTypeName(), badIter))
			exits := l.EarlyExits(p)
			c.Check(rule, "lease-release-loop-complete:"+fnName(f), call.Pos(), len(exits) == 0, "the lease-release loop can be left early: "+strings.Join(exits, "; "))
		}
	}
	c.Floor(rule, "lease-release loops on the confirm path", n, 1)
	// every success path of insertMinedTx arrives at a release loop (its header), directly or through a callee that contains one
	headers := map[*ssa.BasicBlock]bool{}
	holders := map[*ssa.Function]bool{}
	for f := range p.reachSet(ins) {
		if !p.InRepo(f) {
			continue
		}
		loops := loopsOf(f)
		for _, call := range callsNamed(f, "unlockOutput") {
			if l := innermostLoopOf(loops, call); l != nil {
				headers[l.Header] = true
				if f != ins {
					holders[f] = true
				}
			}
		}
	}
	var hf []*ssa.Function
	for f := range holders {
		hf = append(hf, f)
	}
	reach := p.reachingCall(hf...)
	bad := p.mustPassToSuccess(ins, nil, func(i ssa.Instruction) bool {
		return headers[i.Block()] || (len(hf) > 0 && reach(i))
	}, nil)
	c.Check(rule, "confirmed-spend-reaches-lease-release", ins.Pos(), bad == nil, "a success path of insertMinedTx never arrives at the per-input lease release")
}

// checkLeaseLayout: serializeLockedOutput / deserializeLockedOutput agree on
// offsets: id at [0:len(id)], expiry as 8-byte value at [len(id):], same byte order accessor pair.
func checkLeaseLayout(c *Ctx) {
	ser := wtxFn(c, "C12-R5", "serializeLockedOutput")
	des := wtxFn(c, "C12-R5", "deserializeLockedOutput")
	if ser == nil || des == nil {
		return
	}
	shape := func(fn *ssa.Function) (string, string) {
		// collect (method, slice-low-bound linear form) of the byteOrder call
		for _, b := range fn.Blocks {
			for _, ins := range b.Instrs {
				call, ok := ins.(*ssa.Call)
				if !ok {
					continue
				}
				name := calleeShort(&call.Call)
				if name != "PutUint64" && name != "Uint64" && name != "PutUint32" && name != "Uint32" {
					continue
				}
				var low string
				for _, a := range call.Call.Args {
					if sl, ok := a.(*ssa.Slice); ok {
						if sl.Low != nil {
							low = c.P.linearize(sl.Low, 0).String()
						} else {
							low = "+0"
						}
					}
				}
				return strings.TrimPrefix(name, "Put"), low
			}
		}
		return "", ""
	}
	m1, l1 := shape(ser)
	m2, l2 := shape(des)
	c.Check("C12-R5", "lease-value-layout-agrees", ser.Pos(), m1 != "" && m1 == m2 && l1 == l2,
		fmt.Sprintf("lease value writer and reader disagree on the expiry field: writer %s@[%s:], reader %s@[%s:]", m1, l1, m2, l2))
	// unix seconds on both sides
	usesUnix := func(fn *ssa.Function, name string) bool { return len(callsNamed(fn, name)) > 0 }
	c.Check("C12-R5", "lease-expiry-unit-agrees", des.Pos(), usesUnix(ser, "Unix") && usesUnix(des, "Unix"),
		"lease expiry is not written and read as unix seconds on both sides")
}

// checkRescanSetIncludesLeasedOutputs: a confirmed spend of a leased output removes the lease — but the wallet learns
// of a spend only if the backend was asked to watch that outpoint. The set of outpoints the wallet hands to every rescan
// (activeData) therefore comes from a store query that does NOT filter leased outputs out: its call of the credit
// fetcher switches the lease test off. With the spendable set instead, a lease that is alive across a restart takes its
// output off the watch list; it is spent unnoticed, and at expiry the spent output returns to the balance.
func checkRescanSetIncludesLeasedOutputs(c *Ctx, rule string) {
	p := c.P
	fc := p.Func("wtxmgr", "Store", "fetchCredits")
	if fc == nil {
		c.Unresolved(rule, "wtxmgr.Store.fetchCredits")
		return
	}
	n := 0
	// the two places that tell the backend which outpoints to watch for spends: the rescan request (activeData) and the
	// recovery's filter requests (recovery hands the store's credits to the recovery manager's watch list)
	for _, name := range []string{"activeData", "recovery"} {
		root := p.Func("wallet", "Wallet", name)
		if root == nil {
			c.Unresolved(rule, "wallet.Wallet."+name)
			continue
		}
		for _, f := range p.regionOf(root) {
			for _, ci := range callsOf(f) {
				call, ok := ci.(*ssa.Call)
				if !ok {
					continue
				}
				g := call.Call.StaticCallee()
				if g == nil || fnPkgPath(g) != fnPkgPath(fc) {
					continue
				}
				for _, site := range p.forwardedFlagSites(fc) {
					if site.Decider().Parent() != g {
						continue
					}
					ic, ok := site.Inner.(*ssa.Call)
					if !ok {
						continue
					}
					n++
					a := p.argNamed(ic, "includeLocked", 2)
					okInc := false
					if a != nil {
						if b, isK := p.constBoolVia(a, site.Outer); isK && b {
							okInc = true
						}
					}
					c.Check(rule, "rescan-set-includes-leased-outputs:"+name, call.Pos(), okInc,
						"the outpoints "+name+" asks the backend to watch come from "+fnName(g)+", which leaves leased outputs out: a lease alive across a restart takes its output off the watch list, a confirmed spend of it is never reported, the lease is not removed and the spent output returns to the spendable set at expiry")
				}
			}
		}
	}
	c.Floor(rule, "credit queries feeding the watched-outpoint sets", n, 2)
}

// checkStoredExpiryIsTheGivenInstant: the lease ends for every reader (balance, listing, sweep, re-lease test) at the
// instant that is STORED, while the holder was told the instant LockOutput computed. The writer therefore persists the
// time it is given as it is — the receiver of the conversion to seconds is the function's own time parameter, not a
// rounded, truncated or shifted copy: rounding to the nearest second keeps the output leased for up to half a second past
// the expiry its holder was told.
func checkStoredExpiryIsTheGivenInstant(c *Ctx, rule string) {
	ser := wtxFn(c, rule, "serializeLockedOutput")
	if ser == nil {
		return
	}
	n, ok := 0, true
	for _, call := range callsOf(ser) {
		cc, isCall := call.(*ssa.Call)
		if !isCall {
			continue
		}
		g := cc.Call.StaticCallee()
		if g == nil || g.Pkg == nil || g.Pkg.Pkg.Path() != "time" || g.Signature.Recv() == nil {
			continue
		}
		n++
		// a method of time.Time: only the conversion to seconds of the parameter itself is expected
		recv := stripConv(cc.Call.Args[0])
		if u, isLoad := recv.(*ssa.UnOp); isLoad {
			if al, isAl := u.X.(*ssa.Alloc); isAl && isParamSpill(al) {
				for _, st := range storesTo(al) {
					if prm, isPrm := st.Val.(*ssa.Parameter); isPrm {
						recv = prm
					}
				}
			}
		}
		_, isPrm := recv.(*ssa.Parameter)
		if !(isPrm && (g.Name() == "Unix" || g.Name() == "UnixNano" || g.Name() == "UnixMilli")) {
			ok = false
		}
	}
	c.Check(rule, "stored-expiry-is-the-given-instant", ser.Pos(), ok && n > 0,
		"serializeLockedOutput persists a transformed copy of the expiry it is given (rounded / shifted) instead of that instant: readers compare the clock with the stored value, so the lease outlives the expiry LockOutput reported to its holder")
}

// checkLeaseNotMirroredIntoTimelessLockSet: the wallet keeps a second, in-memory set of locked outpoints (lockunspent)
// that coin selection and ListUnspent also consult; it has no notion of time. A lease must end by itself at its expiry,
// so the functions that take or extend a lease in the store do not also put the output into that set: an entry there
// outlives the lease until a restart or an explicit unlock, and the output "becomes available again" only on paper.
func checkLeaseNotMirroredIntoTimelessLockSet(c *Ctx, rule string) {
	p := c.P
	lo := p.Func("wtxmgr", "Store", "LockOutput")
	if lo == nil {
		c.Unresolved(rule, "wtxmgr.Store.LockOutput")
		return
	}
	writesSet := func(f *ssa.Function) bool {
		for _, b := range f.Blocks {
			for _, ins := range b.Instrs {
				if mu, ok := ins.(*ssa.MapUpdate); ok {
					if _, fld, _, okf := fieldOf(stripConv(mu.Map)); okf && fld == "lockedOutpoints" {
						return true
					}
				}
			}
		}
		return false
	}
	n := 0
	for _, fn := range p.FuncsIn("wallet") {
		if fn.Parent() != nil {
			continue
		}
		leases := false
		for _, f := range Closures(fn) {
			for _, ci := range callsOf(f) {
				if p.isCallTo(ci, lo) {
					leases = true
				}
			}
		}
		if !leases {
			continue
		}
		n++
		bad := ""
		for g := range p.reachSet(fn) {
			if p.InRepo(g) && writesSet(g) {
				bad = fnName(g)
			}
		}
		for _, f := range Closures(fn) {
			if writesSet(f) {
				bad = fnName(f)
			}
		}
		c.Check(rule, "lease-not-mirrored-into-timeless-lock-set:"+fn.Name(), fn.Pos(), bad == "",
			fnName(fn)+" takes a lease in the store and also adds the output to the wallet's in-memory lock set (through "+bad+"): that set never expires, so after the lease ran out the output is still skipped by coin selection and ListUnspent until a restart or an explicit unlock")
	}
	c.Floor(rule, "wallet functions taking a lease", n, 1)
}

// checkLeaseRequestsReachTheStore: "can be extended by the same identifier": whether a lease request changes anything is
// the store's decision (it compares owner and expiry and rewrites the row). The wallet-level entry points hand every
// request to it: the database transaction of Wallet.LeaseOutput succeeds only through Store.LockOutput (and that of
// Wallet.ReleaseOutput only through Store.UnlockOutput), and the expiry reported to the caller is the one the store
// returned. A shortcut that answers "already leased" from a listing reports success for an extension that was never
// written.
func checkLeaseRequestsReachTheStore(c *Ctx, rule string) {
	p := c.P
	n := 0
	for _, pair := range [][2]string{{"LeaseOutput", "LockOutput"}, {"ReleaseOutput", "UnlockOutput"}} {
		entry := p.Func("wallet", "Wallet", pair[0])
		store := p.Func("wtxmgr", "Store", pair[1])
		if entry == nil || store == nil {
			c.Unresolved(rule, "wallet.Wallet."+pair[0]+" / wtxmgr.Store."+pair[1])
			continue
		}
		// ... and the entry point itself reports success only after the database transaction that hands it over: no
		// shortcut before it (a "nothing to do for this identifier" guard acknowledges a release that never happened)
		reaches := func(ins ssa.Instruction) bool {
			ci, ok := ins.(ssa.CallInstruction)
			if !ok {
				return false
			}
			if p.isCallTo(ins, store) {
				return true
			}
			// a call that is handed a function literal / part of the region which calls the store
			var buf [8]*ssa.Value
			for _, op := range ins.Operands(buf[:0]) {
				if op == nil || *op == nil {
					continue
				}
				var g *ssa.Function
				switch x := (*op).(type) {
				case *ssa.MakeClosure:
					g, _ = x.Fn.(*ssa.Function)
				case *ssa.Function:
					g = x
				}
				if g != nil && p.inRegion(entry, g) && p.reachSet(g)[store] {
					return true
				}
			}
			if g := ci.Common().StaticCallee(); g != nil && g != entry && p.inRegion(entry, g) && p.reachSet(g)[store] {
				return true
			}
			return false
		}
		{
			n++
			bad := p.mustPassToSuccess(entry, nil, reaches, nil)
			pos := entry.Pos()
			if bad != nil {
				pos = bad.Pos()
			}
			c.Check(rule, "lease-entry-always-hands-over:"+pair[0], pos, bad == nil,
				"Wallet."+pair[0]+" can report success without having run the database transaction that hands the request to Store."+pair[1]+" (a guard returns nil first): the caller is told the lease was taken / released although nothing was written")
		}
		for _, f := range p.regionOf(entry) {
			// every part on the way to the store (the transaction closure, a helper it calls) passes the hand-over on
			// every success path
			if f == entry || !p.reachSet(f)[store] {
				continue
			}
			n++
			bad := p.mustPassToSuccess(f, nil, reaches, nil)
			pos := f.Pos()
			if bad != nil {
				pos = bad.Pos()
			}
			c.Check(rule, "lease-request-reaches-store:"+pair[0], pos, bad == nil,
				"Wallet."+pair[0]+" can report success without having handed the request to Store."+pair[1]+": an extension by the lease's owner is acknowledged with the old expiry and never written — the output becomes available at the original expiry")
		}
	}
	c.Floor(rule, "wallet-level lease entry points that call the store", n, 2)
}

// checkLeaseTestNamesJudgedOutput: where a pass asks "is this output leased" for an outpoint it builds on the spot, the
// index in that outpoint is the index of the output the same iteration looks up as unconfirmed-spent and as a credit:
// all per-output index arguments of one loop body are one value. With the lease asked of another index (an enclosing
// loop's counter that happens to be in scope) a leased output is subtracted twice, or its unleased siblings not at all.
func checkLeaseTestNamesJudgedOutput(c *Ctx, rule string) {
	p := c.P
	n := 0
	for _, fn := range p.FuncsIn("wtxmgr") {
		loops := loopsOf(fn)
		for _, call := range callsNamed(fn, "isLockedOutput") {
			if len(call.Call.Args) < 2 {
				continue
			}
			l := innermostLoopOf(loops, call)
			if l == nil {
				continue
			}
			// the Index the outpoint was given in this iteration
			var idx ssa.Value
			u, ok := stripConv(call.Call.Args[1]).(*ssa.UnOp)
			if !ok {
				continue
			}
			al, ok := u.X.(*ssa.Alloc)
			if !ok {
				continue
			}
			// `op = wire.OutPoint{...}` into a variable declared outside the loop: the literal stored in this iteration
			for _, st := range storesTo(al) {
				if !l.Blocks[st.Block()] {
					continue
				}
				if ld, ok := stripConv(st.Val).(*ssa.UnOp); ok && ld.Op == token.MUL {
					if lit, ok := ld.X.(*ssa.Alloc); ok {
						al = lit
					}
				}
			}
			for _, use := range usesOf(al) {
				fa, ok := use.(*ssa.FieldAddr)
				if !ok {
					continue
				}
				if _, f := fieldAddrName(fa); f != "Index" {
					continue
				}
				for _, u2 := range usesOf(fa) {
					if st, ok := u2.(*ssa.Store); ok && st.Addr == ssa.Value(fa) && l.Blocks[st.Block()] {
						idx = stripConv(st.Val)
					}
				}
			}
			if os.Getenv("VERIF_DEBUG") != "" {
				fmt.Println("DEBUG lease-test", fn.Name(), call.Pos(), idx, al)
			}
			// no Index given inside this loop: the outpoint was built outside the per-output loop and names output 0 (or
			// whatever an outer iteration left) for every output judged here — compared below like any other index
			// sibling per-output index arguments in the same loop body
			for b := range l.Blocks {
				for _, ins := range b.Instrs {
					sib, ok := ins.(*ssa.Call)
					if !ok || sib == call {
						continue
					}
					g := sib.Call.StaticCallee()
					if g == nil || fnPkgPath(g) != fnPkgPath(fn) || len(g.Params) != len(sib.Call.Args) {
						continue
					}
					if innermostLoopOf(loops, sib) != l {
						continue
					}
					for i, prm := range g.Params {
						if prm.Name() != "index" {
							continue
						}
						n++
						c.Check(rule, "lease-test-names-the-judged-output:"+fn.Name()+"/"+g.Name(), sib.Pos(), idx != nil && stripConv(sib.Call.Args[i]) == idx,
							fnName(fn)+" asks the lease of one output index and looks another one up with "+g.Name()+" in the same iteration: a leased output is taken off the balance a second time, or its unleased under-confirmed siblings are not taken off at all")
					}
				}
			}
		}
	}
	c.Floor(rule, "per-output lookups next to a lease test", n, 2)
}
