package main

import (
	"fmt"
	"go/token"
	"go/types"
	"strings"

	"golang.org/x/tools/go/ssa"
)

func init() {
	register(&propSpec{
		ID: "C08",
		Explanation: "Equivalence with a freshly opened manager at every commit boundary is a two-execution property: NOT decided. Decided: (R1) the in-memory index mirrors (accountInfo.next*Index / last*Addr) are stored only in the loader or inside a function literal registered with ReadWriteTx.OnCommit, so a rolled-back transaction cannot advance them; " +
			"(R2) mirror after disk: every in-memory mirror (account name, synced-to stamp, start block, watching-only flag, master keys / crypto-key ciphertexts on passphrase change) is stored only on paths where its database writer returned nil (path-sensitive on repeated flags); " +
			"(R3) MarkUsed evicts the cached address after the write; loadAccountInfo rebuilds the last addresses from the persisted indices (index-1, clamped at 0) for both branches; the dry-run path of txToOutputs leaves the transaction only through the rollback sentinel and the caller maps only that sentinel to success; " +
			"(R4) row rewrites preserve every field: when a fetched account row is re-persisted, each field argument is the row's own field unless it is the value being updated (never a dropped/zero constant).",
		Assumptions: []string{"bbolt runs OnCommit callbacks only for committed transactions"},
		Run:         runC08,
	})
}

var addrMgrMirrors = []mirrorSpec{
	{"waddrmgr", "Manager", "SetSyncedTo", "syncedTo", "syncState", []string{"PutSyncedTo"}},
	{"waddrmgr", "ScopedKeyManager", "RenameAccount", "acctName", "accountInfo", []string{"putDefaultAccountInfo", "putWatchOnlyAccountInfo"}},
	{"waddrmgr", "ScopedKeyManager", "importPublicKey", "startBlock", "syncState", []string{"putStartBlock"}},
	{"waddrmgr", "ScopedKeyManager", "importScriptAddress", "startBlock", "syncState", []string{"putStartBlock"}},
}

func runC08(c *Ctx) {
	p := c.P
	// what a restarted manager finds: every reader of a bucket keyed by a hash looks under the hash its writer used
	checkHashedBucketKeys(c, "C08-R4")
	checkCacheMissLoadsSameAddress(c, "C08-R4")
	// at every commit boundary the next request issues what a restarted wallet would: the issuing critical section
	// spans commit and callback (C09-R1's rule, taken over)
	c.Borrow(runC09, "C09-R1", "C08-R2", func(k string) bool { return strings.HasPrefix(k, "tx-site-locked") })
	// ---------- R1 ----------
	checkIndexMirrorsOnlyAtCommit(c, "C08-R1", nil)
	// an account created in a transaction that is then rolled back (the import dry run) is forgotten on every path
	checkInvalidationAlwaysEvicts(c, "C08-R1")

	// ---------- R2 ----------
	checkMirrorAfterDisk(c, "C08-R2", addrMgrMirrors)
	checkWatchOnlyFlag(c, "C08-R2")
	checkPassphraseChange(c, "C08-R2")

	// ---------- R3 ----------
	if mu := p.Func("waddrmgr", "ScopedKeyManager", "MarkUsed"); mu != nil {
		// the eviction: the delete on the address cache, or the call of a private part that does it on every path
		isEvict := func(ins ssa.Instruction) bool {
			call, ok := ins.(*ssa.Call)
			if !ok || calleeShort(&call.Call) != "delete" || len(call.Call.Args) == 0 {
				return false
			}
			_, f, _, okf := fieldOf(call.Call.Args[0])
			return okf && f == "addrs"
		}
		evictLifted := viaHelpers("evict-address", isEvict, true)
		var del *ssa.Call
		for _, ci := range callsOf(mu) {
			if call, ok := ci.(*ssa.Call); ok && evictLifted(call) {
				del = call
			}
		}
		ok := del != nil
		why := "no delete(s.addrs, ...)"
		if ok {
			ok = !reachableWithoutWriter(p, mu, del, []string{"markAddressUsed"})
			why = fmt.Sprintf("after-write=%v", ok)
			bad := p.mustPassToSuccess(mu, nil, func(i ssa.Instruction) bool { return i == ssa.Instruction(del) }, nil)
			ok = ok && bad == nil
			why += fmt.Sprintf(" on-every-success-path=%v", bad == nil)
		}
		c.Note("MarkUsed: %s", why)
		c.Check("C08-R3", "MarkUsed-evicts-cache-after-write", mu.Pos(), ok, "MarkUsed does not evict the cached address object after (and only after) the used flag was written: a cached address keeps answering Used()=false")
	} else {
		c.Unresolved("C08-R3", "ScopedKeyManager.MarkUsed")
	}
	if la := p.Func("waddrmgr", "ScopedKeyManager", "loadAccountInfo"); la != nil {
		for _, br := range []string{"External", "Internal"} {
			// deriveKey(acctInfo, branch, index, hasPrivateKey): index = phi(next, next-1) of next<Br>Index, guarded by > 0
			found := false
			for _, call := range callsNamed(la, "deriveKey") {
				idxArg := p.argNamed(call, "index", 3)
				ph, ok := idxArg.(*ssa.Phi)
				if !ok {
					continue
				}
				var forms []string
				for _, e := range ph.Edges {
					forms = append(forms, p.linearize(e, 0).String())
				}
				want0, want1 := "+1*field:next"+br+"Index +0", "+1*field:next"+br+"Index -1"
				if len(forms) == 2 && ((forms[0] == want0 && forms[1] == want1) || (forms[1] == want0 && forms[0] == want1)) {
					found = true
					// branch constant matches
					bc, _ := constInPkg(p, "waddrmgr", br+"Branch")
					k, isK := int64(0), false
					if ba := p.argNamed(call, "branch", 2); ba != nil {
						k, isK = constInt(ba)
					}
					c.Check("C08-R3", "last-address-branch:"+br, call.Pos(), isK && k == bc, "the last "+br+" address is derived on the wrong branch")
				}
			}
			c.Check("C08-R3", "last-address-from-persisted-index:"+br, la.Pos(), found,
				"loadAccountInfo does not rebuild the last "+br+" address from the persisted next index minus one (clamped at 0)")
			// and stored into the matching field
			okSt := false
			for _, st := range storesToFieldOwner(la, "accountInfo", "last"+br+"Addr") {
				sl := &Slicer{P: p, KeepExtract: true}
				for _, o := range sl.Origins(st.Val) {
					if ex, ok := o.(*ssa.Extract); ok {
						if call, ok := ex.Tuple.(*ssa.Call); ok && calleeShort(&call.Call) == "keyToManaged" {
							okSt = true
						}
					}
				}
			}
			c.Check("C08-R3", "last-address-stored:"+br, la.Pos(), okSt, "loadAccountInfo does not store the rebuilt last "+br+" address")
		}
		// loader copies the persisted indices and name
		for _, f := range []string{"nextExternalIndex", "nextInternalIndex", "acctName"} {
			okF := false
			src := f
			if f == "acctName" {
				src = "name"
			}
			for _, st := range storesToFieldOwner(la, "accountInfo", f) {
				if _, fl, _, ok := fieldOf(st.Val); ok && fl == src {
					okF = true
				}
			}
			c.Check("C08-R3", "loader-copies-persisted:"+f, la.Pos(), okF, "loadAccountInfo does not initialise "+f+" from the stored account row")
		}
	} else {
		c.Unresolved("C08-R3", "ScopedKeyManager.loadAccountInfo")
	}
	checkDryRun(c, "C08-R3")
	checkLoaderCopies(c, "C08-R3")
	checkRenameUpdatesMirror(c, "C08-R2")

	// ---------- R4 ----------
	checkIssuersPersistEveryAddress(c, "C08-R2")
	checkStartBlockDecision(c, "C08-R2")
	checkAccountCreationRefusesExistingNumber(c, "C08-R2")
	checkUnlockLoopsComplete(c, "C08-R2") // the cached account keys after Lock+Unlock are those a restart would load
	checkImportAddressIDAgreesWithConstructor(c, "C08-R3")
	checkImportPathsAgreeOnSchemaField(c, "C08-R3")
	checkCompressionFlagIsTheWifs(c, "C08-R3")
	checkSameNamedParametersNotCrossed(c, "C08-R3", "waddrmgr")
	checkSyncPointWrittenThroughManager(c, "C08-R2")
	checkBlockHashAnswersFromDatabase(c, "C08-R2")
	checkRebuiltObjectFlagsAreTheRows(c, "C08-R3")
	// a connected block is always written: no shortcut through the in-memory stamp, which runs ahead of the database
	// after a rolled-back transaction (C15-R2's rule)
	c.Borrow(runC15, "C15-R2", "C08-R2", func(k string) bool { return strings.HasPrefix(k, "connect-always-moves-tip") })
	// the database half of SetSyncedTo always writes what the memory half then shows (C15-R3's rules)
	c.Borrow(runC15, "C15-R3", "C08-R2", func(k string) bool {
		return strings.HasPrefix(k, "success-writes:") || strings.HasPrefix(k, "stamp-write-unconditional")
	})
	// the same for the account names and for the scope registry: the running manager answers what a freshly opened one would
	checkMustPassOnSuccess(c, "C08-R2", "account-name-answered-from-database", c.P.Func("waddrmgr", "ScopedKeyManager", "AccountName"), "fetchAccountName",
		"ScopedKeyManager.AccountName can answer from the account cache without reading the database: RenameAccount writes the cached name before its transaction commits, so after a rolled-back rename the running manager reports a name a restarted manager does not know")
	checkMustPassOnSuccess(c, "C08-R2", "new-scope-always-persisted", c.P.Func("waddrmgr", "Manager", "NewScopedKeyManager"), "createScopedManagerNS",
		"Manager.NewScopedKeyManager can report success without having written the scope (a shortcut through the in-memory registry, which is filled before the caller's transaction commits): after a rolled-back creation the committed retry writes nothing, and the scope exists in the running manager only")
	checkDerivationPathLiterals(c, "C08-R3")
	checkRowRewrites(c, "C08-R4")
	c.Advisory("Manager.SetBirthday stores the in-memory birthday before writing it (outside the property's query list)")
}

// checkWatchOnlyFlag: ConvertToWatchingOnly flips the flag only after both database writes.
func checkWatchOnlyFlag(c *Ctx, rule string) {
	p := c.P
	cv := p.Func("waddrmgr", "Manager", "ConvertToWatchingOnly")
	if cv == nil {
		c.Unresolved(rule, "Manager.ConvertToWatchingOnly")
		return
	}
	n := 0
	for _, call := range callsNamed(cv, "Store") {
		_, f, _, ok := fieldOf(call.Call.Args[0])
		if fa, isFA := call.Call.Args[0].(*ssa.FieldAddr); isFA {
			_, f = fieldAddrName(fa)
			ok = true
		}
		if !ok || f != "watchingOnly" {
			continue
		}
		n++
		for _, w := range []string{"deletePrivateKeys", "putWatchingOnly"} {
			okW := !reachableWithoutWriter(p, cv, call, []string{w})
			c.Check(rule, "mirror-after-disk:ConvertToWatchingOnly.watchingOnly/"+w, call.Pos(), okW, "the in-memory watching-only flag is set on a path where "+w+" has not succeeded")
		}
	}
	c.Floor(rule, "watching-only flag stores in ConvertToWatchingOnly", n, 1)
	// in-memory stripping (lock, nil-ing of keys) only after the writes
	for _, call := range callsNamed(cv, "lock") {
		for _, w := range []string{"deletePrivateKeys", "putWatchingOnly"} {
			okW := !reachableWithoutWriter(p, cv, call, []string{w})
			c.Check(rule, "memory-stripped-after-disk:ConvertToWatchingOnly/"+w, call.Pos(), okW, "private material is stripped from memory before "+w+" succeeded")
		}
	}
}

// checkDryRun: the dry-run path returns the rollback sentinel; callers map only that sentinel to success.
func checkDryRun(c *Ctx, rule string) {
	p := c.P
	tto := p.Func("wallet", "Wallet", "txToOutputs")
	if tto == nil {
		c.Unresolved(rule, "wallet.txToOutputs")
		return
	}
	n := 0
	for _, cl := range Closures(tto) {
		if cl == tto {
			continue
		}
		for _, b := range cl.Blocks {
			for si := range b.Succs {
				f := edgeFactOf(b, si)
				if f == nil || f.Kind != "true" {
					continue
				}
				// dryRun is a captured parameter
				name := ""
				if u, ok := f.V.(*ssa.UnOp); ok {
					if fv, ok := u.X.(*ssa.FreeVar); ok {
						name = fv.Name()
					}
				}
				if name != "dryRun" {
					continue
				}
				n++
				q := &PathQuery{Fn: cl}
				q.Target = func(ins ssa.Instruction, via *ssa.BasicBlock) bool {
					r, ok := ins.(*ssa.Return)
					if !ok {
						return false
					}
					return !isGlobalLoad(resolvePhi(effectiveResult(r, 0), r.Block(), via), "ErrDryRunRollBack")
				}
				hits := exploreFromBlock(q, b.Succs[si], b)
				c.Check(rule, "dry-run-always-rolls-back", lastPos(b), len(hits) == 0,
					"a dry run can leave the database transaction without returning ErrDryRunRollBack: the transaction commits and the address indices advance")
				// and nothing is signed before
				q2 := &PathQuery{Fn: cl}
				q2.Target = func(ins ssa.Instruction, via *ssa.BasicBlock) bool { return isCallNamed("AddAllInputScripts")(ins) }
				c.Check(rule, "dry-run-does-not-sign", lastPos(b), len(exploreFromBlock(q2, b.Succs[si], b)) == 0, "a dry run signs the transaction")
			}
		}
	}
	c.Floor(rule, "dry-run branch in txToOutputs", n, 1)
	// ... and ONLY a dry run rolls back: the sentinel (which the caller turns into success) is returned nowhere but behind
	// the edge on which the dryRun flag is set. Returned for another reason as well (a watching-only wallet, say), every
	// real call in that state succeeds while its transaction is rolled back: the change address it derived is recorded
	// nowhere and the next call hands out the same one.
	for _, cl := range Closures(tto) {
		if cl == tto {
			continue
		}
		isDry := func(from *ssa.BasicBlock, si int) bool {
			f := edgeFactOf(from, si)
			if f == nil || f.Kind != "true" {
				return false
			}
			if u, ok := f.V.(*ssa.UnOp); ok {
				if fv, ok := u.X.(*ssa.FreeVar); ok {
					return fv.Name() == "dryRun"
				}
			}
			return false
		}
		for _, b := range cl.Blocks {
			r, ok := b.Instrs[len(b.Instrs)-1].(*ssa.Return)
			if !ok || len(r.Results) == 0 {
				continue
			}
			sentinel := false
			for _, pr := range append([]*ssa.BasicBlock{nil}, b.Preds...) {
				if isGlobalLoad(resolvePhi(effectiveResult(r, 0), b, pr), "ErrDryRunRollBack") {
					sentinel = true
				}
			}
			if !sentinel {
				continue
			}
			c.Check(rule, "only-a-dry-run-rolls-back", r.Pos(), !reachableAvoiding(cl, nil, r, isDry),
				"txToOutputs' transaction can return the dry-run sentinel although dryRun is false: the call reports success, the database transaction is rolled back, and the change address it issued is issued again")
		}
	}
	// caller: success mapping only for that sentinel
	okMap := false
	for _, b := range tto.Blocks {
		for si := range b.Succs {
			if s, isTrue, ok := errIsSentinel(b, si); ok && isTrue && strings.HasSuffix(s, "ErrDryRunRollBack") {
				okMap = true
			}
		}
	}
	c.Check(rule, "only-rollback-sentinel-maps-to-success", tto.Pos(), okMap, "txToOutputs does not recognise exactly the ErrDryRunRollBack sentinel as the successful dry-run outcome")
	// ImportAccountDryRun: closure's success path returns the sentinel
	if ia := p.Func("wallet", "Wallet", "ImportAccountDryRun"); ia != nil {
		for _, cl := range ia.AnonFuncs {
			if !inTxRunner(cl) {
				continue
			}
			bad := false
			for _, b := range cl.Blocks {
				for _, ins := range b.Instrs {
					if r, ok := ins.(*ssa.Return); ok && p.classifyReturn(r, nil) == retSuccess {
						bad = true
					}
				}
			}
			c.Check(rule, "account-dry-run-always-rolls-back", cl.Pos(), !bad, "ImportAccountDryRun's transaction can commit")
			// the dry run has cached the would-be account in the scoped manager; whatever happens after addresses are derived
			// from it — success or failure — the cache entry must be dropped again, or the rolled-back account stays visible
			// (and shadows the account a later real import creates under the same number)
			isInval := func(cc *ssa.CallCommon) bool { return calleeShort(cc) == "InvalidateAccountCache" }
			// covered: in f, a deferred invalidation is registered before ci, or every return reachable from ci passes a direct one
			covered := func(f *ssa.Function, ci ssa.Instruction) bool {
				for _, b := range f.Blocks {
					for _, ins := range b.Instrs {
						if d, ok := ins.(*ssa.Defer); ok && isInval(&d.Call) {
							if (b == ci.Block() && instrIndex(d) < instrIndex(ci)) || (b != ci.Block() && b.Dominates(ci.Block())) {
								return true
							}
						}
					}
				}
				q := &PathQuery{Fn: f, Barrier: func(i ssa.Instruction) bool {
					call, ok := i.(*ssa.Call)
					return ok && isInval(&call.Call)
				}, Target: func(i ssa.Instruction, _ *ssa.BasicBlock) bool { _, ok := i.(*ssa.Return); return ok }}
				return len(q.From(ci)) == 0
			}
			isIssue := func(n string) bool { return n == "NextExternalAddresses" || n == "NextInternalAddresses" }
			nIssue := 0
			for _, ci := range callsOf(cl) {
				n := calleeShort(ci.Common())
				if isIssue(n) {
					nIssue++
					c.Check(rule, "account-dry-run-always-invalidates-cache:"+n, ci.Pos(), covered(cl, ci),
						"ImportAccountDryRun can leave its transaction (on an error after "+n+") without invalidating the account cache entry the dry run created: the rolled-back account stays in memory")
					continue
				}
				// the derivations may sit in an extracted same-package helper: covered inside it, or at its call site here
				g := ci.Common().StaticCallee()
				if g == nil || g.Pkg != cl.Pkg || len(g.Blocks) == 0 {
					continue
				}
				for _, ci2 := range callsOf(g) {
					n2 := calleeShort(ci2.Common())
					if !isIssue(n2) {
						continue
					}
					nIssue++
					c.Check(rule, "account-dry-run-always-invalidates-cache:"+n2, ci2.Pos(), covered(g, ci2) || covered(cl, ci),
						"ImportAccountDryRun can leave its transaction (on an error after "+n2+") without invalidating the account cache entry the dry run created: the rolled-back account stays in memory")
				}
			}
			c.Floor(rule, "address derivations in the account dry run", nIssue, 2)
		}
	}
}

// checkRowRewrites: re-persisting a fetched account row keeps every field.
func checkRowRewrites(c *Ctx, rule string) {
	p := c.P
	n := 0
	for _, fn := range p.FuncsIn("waddrmgr") {
		if strings.Contains(fn.Name(), "igrat") || strings.HasPrefix(fn.Name(), "upgrade") {
			continue
		}
		for _, call := range callsOf(fn) {
			cc, ok := call.(*ssa.Call)
			if !ok {
				continue
			}
			callee := cc.Call.StaticCallee()
			if callee == nil {
				continue
			}
			name := callee.Name()
			if !(strings.HasPrefix(name, "put") && strings.HasSuffix(name, "AccountInfo")) && !(strings.HasPrefix(name, "serialize") && strings.HasSuffix(name, "AccountRow")) {
				continue
			}
			// does the caller hold a fetched row of a db*AccountRow type?
			rowFields := map[string]bool{}
			hasRow := false
			for _, a := range cc.Call.Args {
				if tn, f, _, ok := fieldOf(a); ok && strings.HasPrefix(tn, "db") && strings.HasSuffix(tn, "AccountRow") {
					hasRow = true
					rowFields[f] = true
				}
			}
			if !hasRow {
				continue
			}
			for i, prm := range callee.Params {
				if i >= len(cc.Call.Args) {
					continue
				}
				pn := prm.Name()
				arg := cc.Call.Args[i]
				if _, isBucket := arg.Type().Underlying().(interface{ NumMethods() int }); isBucket {
					continue
				}
				if pn == "ns" || pn == "scope" || pn == "account" {
					continue
				}
				n++
				// acceptable: a field load of a row (same-named or the encrypted-key aliases), a parameter/derived value; not a nil/zero constant
				ok := true
				detail := ""
				if p.inRegion(p.Func("waddrmgr", "", "deletePrivateKeys"), fn) && strings.Contains(pn, "Priv") {
					// the one function whose purpose is to strip private ciphertexts (C04-R5)
					c.Check(rule, "row-rewrite-preserves:"+fn.Name()+"->"+name+"."+pn, cc.Pos(), isNilConst(arg), "deletePrivateKeys must rewrite the row with a nil private key")
					continue
				}
				if cst, isC := arg.(*ssa.Const); isC && (cst.Value == nil || cst.Value.String() == "0" || cst.Value.String() == `""`) {
					ok = false
					detail = fmt.Sprintf("%s re-persists an account row through %s with a zero/nil %s: the stored %s is dropped although the row being rewritten has one", fn.Name(), name, pn, pn)
				}
				// every stored-row field that can flow into this slot (directly, or through a local that is conditionally
				// replaced by a new value) is the field of the same role
				for _, o := range (&Slicer{P: p, ThroughBinOp: true}).Origins(arg) {
					if tn, f, _, okf := fieldOf(o); okf && strings.HasSuffix(tn, "AccountRow") {
						if !sameFieldRole(f, pn) {
							ok = false
							detail = fmt.Sprintf("%s passes row field %s for parameter %s of %s: the stored %s is overwritten with the value of %s", fn.Name(), f, pn, name, pn, f)
						}
					}
				}
				if tn, f, _, okf := fieldOf(stripConv(arg)); okf && !strings.HasSuffix(tn, "AccountRow") && tn != "" {
					// a value the row itself holds must be carried over from the row read in this database transaction, not
					// from an in-memory mirror: the mirror lags the database between a commit and its OnCommit callback
					for rf := range rowFieldsOf(cc) {
						if sameFieldRole(rf, pn) {
							ok = false
							detail = fmt.Sprintf("%s re-persists %s of an account row from the in-memory %s.%s instead of the row it read in this transaction: between an address-issuing commit and its commit callback the mirror is stale, so the committed next index is overwritten with the old one and the same address is issued again after a restart", fn.Name(), pn, tn, f)
						}
					}
				}
				c.Check(rule, "row-rewrite-preserves:"+fn.Name()+"->"+name+"."+pn, cc.Pos(), ok, detail)
			}
		}
	}
	c.Floor(rule, "field arguments of account-row rewrites", n, 15)
}

// rowFieldsOf: names of all fields of the db*AccountRow struct types (incl. embedded) whose fields the call passes.
func rowFieldsOf(cc *ssa.Call) map[string]bool {
	out := map[string]bool{}
	var add func(t types.Type, depth int)
	add = func(t types.Type, depth int) {
		if p, ok := t.Underlying().(*types.Pointer); ok {
			t = p.Elem()
		}
		st, ok := t.Underlying().(*types.Struct)
		if !ok || depth > 2 {
			return
		}
		for i := 0; i < st.NumFields(); i++ {
			out[st.Field(i).Name()] = true
			if st.Field(i).Embedded() {
				add(st.Field(i).Type(), depth+1)
			}
		}
	}
	for _, a := range cc.Call.Args {
		if tn, _, base, ok := fieldOf(stripConv(a)); ok && strings.HasPrefix(tn, "db") && strings.HasSuffix(tn, "AccountRow") {
			add(base.Type(), 0)
		}
	}
	return out
}

func sameFieldRole(field, param string) bool {
	norm := func(s string) string {
		s = strings.ToLower(s)
		for _, p := range []string{"encrypted", "enc", "key", "acct", "account"} {
			s = strings.ReplaceAll(s, p, "")
		}
		return s
	}
	return norm(field) == norm(param)
}

var _ = token.ADD

// checkCacheMissLoadsSameAddress: a lookup that first asks the address cache and, on a miss, loads the row from the
// database answers the same with a warm and with a cold cache only if both steps are keyed by the same address value
// (after any normalisation such as pay-to-pubkey -> pay-to-pubkey-hash). If the database step receives the caller's
// original address, a restarted manager (cold cache) does not find an address the running one does.
func checkCacheMissLoadsSameAddress(c *Ctx, rule string) {
	p := c.P
	n := 0
	for _, fn := range p.FuncsIn("waddrmgr") {
		if fn.Parent() != nil || fn.Signature.Recv() == nil || recvName(fn) != "ScopedKeyManager" {
			continue
		}
		loads := callsNamed(fn, "loadAndCacheAddress")
		if len(loads) == 0 {
			continue
		}
		// the address whose script address keys the cache lookup in this function (or in a private part it hands the
		// address to: the argument at that call then is the keyed address)
		keyedIn := func(f *ssa.Function) []ssa.Value {
			var out []ssa.Value
			for _, b := range f.Blocks {
				for _, ins := range b.Instrs {
					lk, ok := ins.(*ssa.Lookup)
					if !ok {
						continue
					}
					if _, fld, _, okf := fieldOf(stripConv(lk.X)); !okf || fld != "addrs" {
						continue
					}
					for _, o := range (&Slicer{P: p}).Origins(lk.Index) {
						if call, ok := o.(*ssa.Call); ok && call.Call.IsInvoke() && call.Call.Method.Name() == "ScriptAddress" {
							out = append(out, stripConv(call.Call.Value))
						}
					}
				}
			}
			return out
		}
		keyed := keyedIn(fn)
		for _, ci := range callsOf(fn) {
			cc, ok := ci.(*ssa.Call)
			if !ok {
				continue
			}
			g := cc.Call.StaticCallee()
			if g == nil || g == fn || len(g.Blocks) == 0 || fnPkgPath(g) != fnPkgPath(fn) || g.Object() == nil || g.Object().Exported() {
				continue
			}
			for _, kv := range keyedIn(g) {
				if prm, isPrm := kv.(*ssa.Parameter); isPrm {
					if i := paramIndex(g, prm); i >= 0 && i < len(cc.Call.Args) {
						keyed = append(keyed, stripConv(cc.Call.Args[i]))
					}
				}
			}
		}
		if len(keyed) == 0 {
			continue
		}
		for _, ld := range loads {
			a := p.argNamed(ld, "address", 2)
			if a == nil {
				continue
			}
			n++
			same := false
			for _, k := range keyed {
				if stripConv(a) == k {
					same = true
				}
			}
			c.Check(rule, "cache-miss-loads-same-address:"+fn.Name(), ld.Pos(), same,
				fnName(fn)+" looks the address cache up under one address value and, on a miss, loads the database row for another: a normalisation applied to the cache key only (pay-to-pubkey -> pubkey hash) makes a restarted manager answer 'address not found' for an address the running manager knows")
		}
	}
	c.Floor(rule, "cache-then-database address lookups", n, 1)
}

// checkIndexMirrorsOnlyAtCommit: the in-memory next-index / last-address mirrors of an account are written only by the
// loader and inside ReadWriteTx.OnCommit callbacks. skip (optional) leaves out functions by name — used when another
// property takes the rule over without the constructs recorded as known findings of C08.
func checkIndexMirrorsOnlyAtCommit(c *Ctx, rule string, skip func(top string) bool) {
	p := c.P
	n := 0
	for _, fn := range p.FuncsIn("waddrmgr") {
		for _, b := range fn.Blocks {
			for _, ins := range b.Instrs {
				st, ok := ins.(*ssa.Store)
				if !ok {
					continue
				}
				fa, ok := st.Addr.(*ssa.FieldAddr)
				if !ok {
					continue
				}
				tn, f := fieldAddrName(fa)
				if tn != "accountInfo" || !isIndexMirror(f) {
					continue
				}
				n++
				top := outermost(fn).Name()
				if skip != nil && skip(top) {
					continue
				}
				ok = top == "loadAccountInfo" || inOnCommit(p, fn)
				c.Check(rule, "index-mirror-only-at-commit:"+top+"."+f, st.Pos(), ok,
					"the in-memory "+f+" is advanced outside the loader and outside a ReadWriteTx.OnCommit callback: after a rolled-back transaction memory reports indices the database does not have (and a retry does not write them)")
			}
		}
	}
	c.Floor(rule, "stores to index mirrors", n, 10)
}

// checkSyncPointWrittenThroughManager: the address manager mirrors the synced-to stamp in memory; Manager.SetSyncedTo
// writes both. The database-only writer PutSyncedTo is exported for tools that work on a database WITHOUT a manager
// (dropping the transaction history). A function of another package that has a manager at hand and still calls the
// database-only writer moves the persisted sync point behind the running manager's back: memory keeps the old tip, a
// restart starts from the new one.
func checkSyncPointWrittenThroughManager(c *Ctx, rule string) {
	p := c.P
	put := p.Func("waddrmgr", "", "PutSyncedTo")
	if put == nil {
		c.Unresolved(rule, "waddrmgr.PutSyncedTo")
		return
	}
	isMgr := func(t types.Type) bool {
		if pt, ok := t.Underlying().(*types.Pointer); ok {
			t = pt.Elem()
		}
		n, ok := t.(*types.Named)
		return ok && n.Obj().Name() == "Manager" && n.Obj().Pkg() != nil && strings.HasSuffix(n.Obj().Pkg().Path(), "/waddrmgr")
	}
	n := 0
	for _, cs := range p.realCallers(put) {
		fn := cs.Parent()
		if strings.HasSuffix(fnPkgPath(fn), "/waddrmgr") {
			continue
		}
		n++
		hasMgr := ""
		for _, f := range Closures(outermost(fn)) {
			var buf [16]*ssa.Value
			for _, b := range f.Blocks {
				for _, ins := range b.Instrs {
					if v, ok := ins.(ssa.Value); ok && isMgr(v.Type()) {
						hasMgr = v.Name()
					}
					for _, op := range ins.Operands(buf[:0]) {
						if op != nil && *op != nil && isMgr((*op).Type()) {
							hasMgr = (*op).Name()
						}
					}
				}
			}
		}
		c.Check(rule, "sync-point-written-through-manager:"+fnName(outermost(fn)), cs.Pos(), hasMgr == "",
			fnName(outermost(fn))+" has an address manager at hand and writes the synced-to stamp with the database-only PutSyncedTo: the manager's in-memory stamp keeps the old tip while a restarted manager reads the new one")
	}
	c.Floor(rule, "callers of the database-only sync point writer outside waddrmgr", n, 1)
}
