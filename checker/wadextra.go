package main

import (
	"fmt"
	"go/token"
	"go/types"
	"sort"
	"strings"

	"golang.org/x/tools/go/ssa"
)

// checkLoaderCopies: in loadAccountInfo every accountInfo field initialised from a stored account-row field takes
// the row's field of the same role (next internal index from next internal index, ...).
func checkLoaderCopies(c *Ctx, rule string) {
	la := c.P.Func("waddrmgr", "ScopedKeyManager", "loadAccountInfo")
	if la == nil {
		c.Unresolved(rule, "ScopedKeyManager.loadAccountInfo")
		return
	}
	alias := map[string]string{"acctName": "name", "acctKeyEncrypted": "privKeyEncrypted"}
	n := 0
	for _, b := range la.Blocks {
		for _, ins := range b.Instrs {
			st, ok := ins.(*ssa.Store)
			if !ok {
				continue
			}
			fa, ok := st.Addr.(*ssa.FieldAddr)
			if !ok {
				continue
			}
			tn, dst := fieldAddrName(fa)
			if tn != "accountInfo" {
				continue
			}
			rtn, src, _, okf := fieldOf(st.Val)
			if !okf || !strings.HasSuffix(rtn, "AccountRow") {
				continue
			}
			n++
			want := dst
			if a, ok := alias[dst]; ok {
				want = a
			}
			c.Check(rule, fmt.Sprintf("loader-copies-same-field:%s.%s", rtn, dst), st.Pos(), src == want,
				fmt.Sprintf("loadAccountInfo initialises %s from the stored row's %s (expected %s): after a restart / cache reload the account reports the wrong value (e.g. change addresses re-issued)", dst, src, want))
		}
	}
	c.Floor(rule, "account-row -> accountInfo field copies", n, 8)
}

// checkIssuerAddrType: both issuers look the address type up for their own branch flag.
func checkIssuerAddrType(c *Ctx, rule string) {
	for _, fnn := range []string{"nextAddresses", "extendAddresses"} {
		fn := c.P.Func("waddrmgr", "ScopedKeyManager", fnn)
		if fn == nil {
			c.Unresolved(rule, "ScopedKeyManager."+fnn)
			continue
		}
		calls := callsNamed(fn, "accountAddrType")
		ok := len(calls) > 0
		for _, call := range calls {
			arg := call.Call.Args[len(call.Call.Args)-1]
			isInternalParam := false
			switch x := arg.(type) {
			case *ssa.Parameter:
				isInternalParam = x.Name() == "internal" || paramIndex(fn, x) == len(fn.Params)-1
			case *ssa.UnOp:
				if al, isA := x.X.(*ssa.Alloc); isA && isParamSpill(al) {
					isInternalParam = true
				}
			}
			if !isInternalParam {
				ok = false
			}
		}
		pos := fn.Pos()
		if len(calls) > 0 {
			pos = calls[0].Pos()
		}
		c.Check(rule, "address-type-for-own-branch:"+fnn, pos, ok,
			fnn+" does not look up the address type with its own internal/external flag: for scopes whose change addresses use a different format (BIP49+) the address is stored under the wrong script hash")
	}
}

// checkRenameUpdatesMirror: every success path of RenameAccount consults the account cache and updates the cached name.
func checkRenameUpdatesMirror(c *Ctx, rule string) {
	p := c.P
	fn := p.Func("waddrmgr", "ScopedKeyManager", "RenameAccount")
	if fn == nil {
		c.Unresolved(rule, "ScopedKeyManager.RenameAccount")
		return
	}
	// for every account-row writer: after it succeeded, the cached-name update must be reachable
	var stores []*ssa.Store
	for _, st := range storesToFieldOwner(fn, "accountInfo", "acctName") {
		stores = append(stores, st)
	}
	n := 0
	for _, w := range []string{"putDefaultAccountInfo", "putWatchOnlyAccountInfo"} {
		for _, call := range callsNamed(fn, w) {
			n++
			q := &PathQuery{Fn: fn}
			q.EdgeBarrier = func(from *ssa.BasicBlock, si int) bool {
				f := edgeFactOf(from, si)
				return f != nil && f.Kind == "nonnil" && loadIsResultOf(f.V, call)
			}
			q.Target = func(ins ssa.Instruction, via *ssa.BasicBlock) bool {
				for _, st := range stores {
					if ins == ssa.Instruction(st) {
						return true
					}
				}
				return false
			}
			ok := len(q.From(call)) > 0
			c.Check(rule, "rename-updates-cached-name-after:"+w, call.Pos(), ok,
				"after "+w+" succeeded, RenameAccount cannot reach the update of the cached account name: for this account type the running manager keeps reporting the old name while the database has the new one")
		}
	}
	c.Floor(rule, "account-row writers in RenameAccount", n, 2)
	_ = p
}

// checkMainBucketDeletes: deletePrivateKeys deletes the main-bucket secrets from the main bucket.
func checkMainBucketDeletes(c *Ctx, rule string) {
	p := c.P
	dp := p.Func("waddrmgr", "", "deletePrivateKeys")
	if dp == nil {
		return
	}
	main := map[string]bool{"waddrmgr.masterPrivKeyName": true, "waddrmgr.cryptoPrivKeyName": true, "waddrmgr.cryptoScriptKeyName": true, "waddrmgr.masterHDPrivName": true}
	n := 0
	for _, f := range Closures(dp) {
		for _, ci := range callsOf(f) {
			call, ok := ci.(*ssa.Call)
			if !ok {
				continue
			}
			nm, isSrc := isDBSource(call.Common())
			if !isSrc || !strings.HasSuffix(nm, ".Delete") {
				continue
			}
			keys := []string{valueDesc(call.Call.Args[0])}
			for _, kv := range p.rangeFieldValues(call.Call.Args[0]) {
				keys = append(keys, valueDesc(kv)) // a loop over a literal list of keys
			}
			key := ""
			for _, k := range keys {
				if main[k] {
					n++
					if key != "" {
						key += "+"
					}
					key += strings.TrimPrefix(k, "waddrmgr.")
				}
			}
			if key == "" {
				continue
			}
			key = "waddrmgr." + key
			// the receiver's provenance (flow-sensitive for a captured, reassigned bucket variable)
			buckets := map[string]bool{}
			for _, o := range bucketOrigins(p, call) {
				if nc, ok := o.(*ssa.Call); ok && strings.HasPrefix(calleeShort(&nc.Call), "Nested") && len(nc.Call.Args) > 0 {
					buckets[valueDesc(nc.Call.Args[len(nc.Call.Args)-1])] = true
				} else {
					buckets[describeValue(o)] = true
				}
			}
			ok = len(buckets) == 1 && buckets["waddrmgr.mainBucketName"]
			var bs []string
			for b := range buckets {
				bs = append(bs, b)
			}
			c.Check(rule, "main-bucket-secret-deleted-from-main-bucket:"+strings.TrimPrefix(key, "waddrmgr."), call.Pos(), ok,
				fmt.Sprintf("deletePrivateKeys deletes %s from a bucket variable that may hold %v: deleting a missing key is a silent no-op, so the secret survives conversion to watching-only", key, bs))
		}
	}
	c.Floor(rule, "main-bucket secret deletes", n, 4)
}

// checkInitAccountsConversion: wallet.InitAccounts with watchOnly set always reaches ConvertToWatchingOnly.
func checkInitAccountsConversion(c *Ctx, rule string) {
	p := c.P
	ia := p.Func("wallet", "Wallet", "InitAccounts")
	if ia == nil {
		c.Unresolved(rule, "wallet.InitAccounts")
		return
	}
	for _, cl := range ia.AnonFuncs {
		if len(callsNamed(cl, "ConvertToWatchingOnly")) == 0 {
			continue
		}
		// on the watchOnly=true edge... every success return of the closure passes ConvertToWatchingOnly unless watchOnly is false
		q := &PathQuery{Fn: cl, Barrier: isCallNamed("ConvertToWatchingOnly")}
		q.EdgeBarrier = func(from *ssa.BasicBlock, si int) bool {
			f := edgeFactOf(from, si)
			if f == nil || f.Kind != "false" {
				return false
			}
			if u, ok := f.V.(*ssa.UnOp); ok {
				if fv, ok := u.X.(*ssa.FreeVar); ok && fv.Name() == "watchOnly" {
					return true
				}
			}
			return false
		}
		q.Target = func(ins ssa.Instruction, via *ssa.BasicBlock) bool {
			r, ok := ins.(*ssa.Return)
			return ok && p.classifyReturn(r, via) == retSuccess
		}
		hits := q.From(nil)
		c.Check(rule, "watch-only-migration-always-converts", cl.Pos(), len(hits) == 0,
			"InitAccounts(watchOnly=true) can return success without converting the manager to watching-only (private keys stay in the database)")
		for _, l := range loopsOf(cl) {
			exits := l.EarlyExits(p)
			c.Check(rule, "InitAccounts-loop-complete", l.Header.Instrs[0].Pos(), len(exits) == 0, "the account-initialisation loop can be left early with success: "+strings.Join(exits, "; "))
		}
	}
}

// bucketOrigins: origins of the receiver of a bucket method call. If the receiver is a load of a local variable that is
// also written inside closures, the closure's stores count only if a call that can run such a closure lies on a path
// between the variable's nearest dominating store in this function and the load.
func bucketOrigins(p *Program, call *ssa.Call) []ssa.Value {
	recv := call.Call.Value
	ld, ok := recv.(*ssa.UnOp)
	if !ok {
		return (&Slicer{P: p}).Origins(recv)
	}
	al, ok := ld.X.(*ssa.Alloc)
	if !ok {
		return (&Slicer{P: p}).Origins(recv)
	}
	fn := call.Parent()
	// nearest dominating store in fn
	var s0 *ssa.Store
	b := ld.Block()
	idx := instrIndex(ld)
	for b != nil && s0 == nil {
		for i := idx - 1; i >= 0; i-- {
			if st, ok := b.Instrs[i].(*ssa.Store); ok && st.Addr == ssa.Value(al) {
				s0 = st
				break
			}
		}
		b = b.Idom()
		if b != nil {
			idx = len(b.Instrs)
		}
	}
	var out []ssa.Value
	if s0 != nil {
		out = append(out, (&Slicer{P: p}).Origins(s0.Val)...)
	}
	// stores in closures
	var closureStores []*ssa.Store
	for _, st := range storesTo(al) {
		if st.Parent() != fn {
			closureStores = append(closureStores, st)
		}
	}
	if len(closureStores) == 0 || s0 == nil {
		if s0 == nil {
			return (&Slicer{P: p}).Origins(recv)
		}
		return out
	}
	writers := map[*ssa.Function]bool{}
	for _, st := range closureStores {
		for f := st.Parent(); f != nil; f = f.Parent() {
			writers[f] = true
		}
	}
	// is there a call running a writer closure between s0 and the load?
	runsWriter := func(ins ssa.Instruction) bool {
		ci, ok := ins.(ssa.CallInstruction)
		if !ok {
			return false
		}
		for _, f := range funcArgs(ci) {
			if writers[f] {
				return true
			}
		}
		return false
	}
	q := &PathQuery{Fn: fn, Barrier: runsWriter}
	q.Target = func(ins ssa.Instruction, via *ssa.BasicBlock) bool { return ins == ssa.Instruction(ld) }
	cleanPath := len(q.From(s0)) > 0
	q2 := &PathQuery{Fn: fn}
	passed := false
	q2.Target = func(ins ssa.Instruction, via *ssa.BasicBlock) bool { return runsWriter(ins) }
	for _, h := range q2.From(s0) {
		q3 := &PathQuery{Fn: fn}
		q3.Target = func(ins ssa.Instruction, via *ssa.BasicBlock) bool { return ins == ssa.Instruction(ld) }
		if len(q3.From(h.Ins)) > 0 {
			passed = true
		}
	}
	_ = cleanPath
	if passed {
		for _, st := range closureStores {
			out = append(out, (&Slicer{P: p}).Origins(st.Val)...)
		}
	}
	return out
}

// checkUnlockRestoresWipedKeys (sibling agreement lock() <-> Unlock()): every key of the
// three-tier hierarchy that lock() wipes in place (x.Zero() on a Manager field holding an
// EncryptorDecryptor) must be restored by Unlock from its stored ciphertext — a CopyBytes on
// the same field whose argument is the result of masterKeyPriv.Decrypt(<a []byte field of
// Manager>), distinct per key — on every path from the passphrase check (DeriveKey) to a
// success return. A key that is wiped but never restored stays all-zero while the manager
// reports "unlocked", so everything Manager.Encrypt seals under that class is sealed under a
// publicly known key: the database then holds the secret in effectively clear form.
func checkUnlockRestoresWipedKeys(c *Ctx, rule string) {
	p := c.P
	lock := p.Func("waddrmgr", "Manager", "lock")
	unlock := p.Func("waddrmgr", "Manager", "Unlock")
	if lock == nil || unlock == nil {
		c.Unresolved(rule, "Manager.lock / Manager.Unlock")
		return
	}
	recvField := func(cc *ssa.CallCommon) (string, types.Type, bool) {
		var recv ssa.Value
		if cc.IsInvoke() {
			recv = cc.Value
		} else if len(cc.Args) > 0 && cc.StaticCallee() != nil && cc.StaticCallee().Signature.Recv() != nil {
			recv = cc.Args[0]
		}
		if recv == nil {
			return "", nil, false
		}
		tn, f, _, ok := fieldOf(stripConv(recv))
		if !ok || tn != "Manager" {
			return "", nil, false
		}
		return f, recv.Type(), true
	}
	// keys wiped in place by lock()
	type wiped struct {
		field string
		pos   token.Pos
	}
	var ws []wiped
	for _, ci := range callsOf(lock) {
		cc := ci.Common()
		if calleeShort(cc) != "Zero" {
			continue
		}
		f, t, ok := recvField(cc)
		if !ok {
			continue
		}
		if _, isIface := t.Underlying().(*types.Interface); !isIface {
			continue // masterKeyPriv (*snacl.SecretKey) is re-derived from the passphrase, not from a stored ciphertext
		}
		ws = append(ws, wiped{f, ci.Pos()})
	}
	c.Floor(rule, "crypto keys wiped in place by Manager.lock", len(ws), 2)
	var derive ssa.Instruction
	// in Unlock, or in the private part of it that derives the master key and restores the crypto keys
	for _, body := range p.regionTop(unlock) {
		for _, ci := range callsOf(body) {
			if calleeShort(ci.Common()) == "DeriveKey" && derive == nil {
				if f, _, ok := recvField(ci.Common()); ok && f == "masterKeyPriv" {
					derive = ci
					unlock = body
				}
			}
		}
	}
	if derive == nil {
		c.Unresolved(rule, "masterKeyPriv.DeriveKey call in Manager.Unlock")
		return
	}
	sl := &Slicer{P: p, KeepExtract: true}
	usedCipher := map[string]string{}
	for _, w := range ws {
		var restores []*ssa.Call
		why := "Unlock contains no CopyBytes on this field"
		for _, ci := range callsOf(unlock) {
			call, ok := ci.(*ssa.Call)
			if !ok || calleeShort(&call.Call) != "CopyBytes" {
				continue
			}
			f, _, ok := recvField(&call.Call)
			if !ok || f != w.field {
				continue
			}
			args := call.Call.Args
			src := args[len(args)-1]
			good := false
			for _, o := range sl.Origins(src) {
				ex, ok := o.(*ssa.Extract)
				if !ok || ex.Index != 0 {
					continue
				}
				dc, ok := ex.Tuple.(*ssa.Call)
				if !ok || calleeShort(&dc.Call) != "Decrypt" {
					continue
				}
				rf, _, ok := recvField(&dc.Call)
				if !ok || rf != "masterKeyPriv" {
					why = "the restored bytes are not decrypted with the master private key"
					continue
				}
				dargs := dc.Call.Args
				tn, cf, _, ok := fieldOf(stripConv(dargs[len(dargs)-1]))
				if !ok || tn != "Manager" {
					why = "the decrypted ciphertext is not a stored-key field of Manager"
					continue
				}
				if prev, dup := usedCipher[cf]; dup && prev != w.field {
					why = fmt.Sprintf("restored from %s, the stored ciphertext that already restores %s", cf, prev)
					continue
				}
				usedCipher[cf] = w.field
				good = true
			}
			if good {
				restores = append(restores, call)
			}
		}
		ok := len(restores) > 0
		detail := why
		if ok {
			isRestore := func(ins ssa.Instruction) bool {
				for _, r := range restores {
					if ins == ssa.Instruction(r) {
						return true
					}
				}
				return false
			}
			if off := p.mustPassToSuccess(unlock, derive, isRestore, nil); off != nil {
				ok = false
				detail = "a success return of Unlock at " + p.Pos(off.Pos()) + " is reachable from the passphrase check without restoring this key"
			}
		}
		c.Check(rule, "unlock-restores-wiped-key:"+w.field, w.pos, ok,
			fmt.Sprintf("Manager.lock wipes %s in place but Manager.Unlock does not restore it from its stored ciphertext (%s): while unlocked the key is all-zero, so data sealed under this key class is sealed under a publicly known key", w.field, detail))
	}
}

// checkAccountWithoutPrivateKey (contradiction rule, Engler et al.): the code tests
// `len(acctInfo.acctKeyEncrypted) == 0` in the issuers, i.e. it believes an account may have no
// private key (a watch-only account imported into a regular wallet). Under that belief
// (mode: account key ciphertext empty, private account key nil), for every function that has such an
// account in hand: (a) no Decrypt of that ciphertext may be reachable — its failure is treated as
// fatal and re-locks, so the correct passphrase would no longer unlock the wallet; (b) no address may
// be queued for derive-on-unlock — there is no private key to derive from at the next Unlock.
func checkAccountWithoutPrivateKey(c *Ctx, rule string) {
	p := c.P
	isAcctCipherLoad := func(v ssa.Value) bool {
		tn, f, _, ok := fieldOf(stripConv(v))
		return ok && tn == "accountInfo" && f == "acctKeyEncrypted"
	}
	env := modeEnv{"p:IsLocked": bUnknown, "p:WatchOnly": bFalse, "n:acctKeyPriv": bTrue, "e:acctKeyEncrypted": bTrue}
	nDec, nQueue := 0, 0
	for _, fn := range p.FuncsIn("waddrmgr") {
		var decs []ssa.Instruction
		var queues []ssa.Instruction
		for _, b := range fn.Blocks {
			for _, ins := range b.Instrs {
				switch x := ins.(type) {
				case *ssa.Call:
					if calleeShort(&x.Call) == "Decrypt" && len(x.Call.Args) > 0 && isAcctCipherLoad(x.Call.Args[len(x.Call.Args)-1]) {
						decs = append(decs, x)
					}
				case *ssa.Store:
					if fa, ok := x.Addr.(*ssa.FieldAddr); ok {
						if tn, f := fieldAddrName(fa); tn == "ScopedKeyManager" && f == "deriveOnUnlock" {
							// only growth of the queue (append), not the pop in Unlock
							for _, o := range (&Slicer{P: p}).Origins(x.Val) {
								if call, ok := o.(*ssa.Call); ok && calleeShort(&call.Call) == "append" {
									queues = append(queues, x)
									break
								}
							}
						}
					}
				}
			}
		}
		for _, tgt := range decs {
			tgt := tgt
			nDec++
			mi := &modeInterp{p: p, preds: map[string]bool{"IsLocked": true, "WatchOnly": true}, noDescend: true,
				containsTarget: func(*ssa.Function) bool { return true },
				target:         func(ins ssa.Instruction, _ modeEnv) bool { return ins == tgt }}
			hit := mi.reachable(fn, env, 0)
			c.Check(rule, "no-decrypt-of-absent-account-key:"+fnName(fn), tgt.Pos(), hit == nil,
				fnName(fn)+" decrypts accountInfo.acctKeyEncrypted on a path where the account has no private key (empty ciphertext: a watch-only account in a regular wallet); the failure is fatal there, so once such an account is loaded the correct passphrase no longer unlocks the manager")
		}
		for _, tgt := range queues {
			tgt := tgt
			nQueue++
			mi := &modeInterp{p: p, preds: map[string]bool{"IsLocked": true, "WatchOnly": true}, noDescend: true,
				containsTarget: func(*ssa.Function) bool { return true },
				target:         func(ins ssa.Instruction, _ modeEnv) bool { return ins == tgt }}
			hit := mi.reachable(fn, env, 0)
			c.Check(rule, "no-derive-on-unlock-without-account-key:"+fnName(fn), tgt.Pos(), hit == nil,
				fnName(fn)+" queues an address for derive-on-unlock although its account has no private key: the next Unlock derives a public key and dereferences the missing private key")
		}
	}
	c.Floor(rule, "decryptions of the account key ciphertext", nDec, 1)
	c.Floor(rule, "derive-on-unlock queue insertions", nQueue, 3)
}

// checkCiphertextFieldSlots: the in-memory ciphertext fields of managed addresses and accounts are slots of
// the same kind as the ciphertext parameters of the persistence helpers (they are later written to the
// database verbatim, and decrypted with the key class their name promises). Every store to such a field
// must carry ciphertext produced under that class (or stored ciphertext / nil / a parameter whose every
// caller satisfies the same).
func checkCiphertextFieldSlots(c *Ctx, rule string) {
	p := c.P
	n := 0
	for _, fn := range p.FuncsIn("waddrmgr") {
		if strings.Contains(outermost(fn).Name(), "igrat") {
			continue
		}
		for _, b := range fn.Blocks {
			for _, ins := range b.Instrs {
				st, ok := ins.(*ssa.Store)
				if !ok {
					continue
				}
				fa, ok := st.Addr.(*ssa.FieldAddr)
				if !ok {
					continue
				}
				tn, f := fieldAddrName(fa)
				want := ""
				switch {
				case f == "privKeyEncrypted" && tn == "managedAddress", f == "acctKeyEncrypted" && tn == "accountInfo":
					want = "priv"
				case f == "scriptEncrypted":
					want = "script"
				}
				if want == "" {
					continue
				}
				n++
				bad := slotOrigins(p, st.Val, want, 0, map[ssa.Value]bool{})
				c.Check(rule, fmt.Sprintf("ciphertext-field:%s.%s<-%s", tn, f, outermost(fn).Name()), st.Pos(), len(bad) == 0,
					fmt.Sprintf("%s.%s is assigned, in %s, something that is not ciphertext under the %s key class: %s (it is later decrypted with that class — after the next Lock/Unlock the key cannot be recovered — and may be persisted as is)", tn, f, fnName(fn), want, strings.Join(bad, "; ")))
			}
		}
	}
	c.Floor(rule, "stores to in-memory ciphertext fields", n, 5)
}

// checkPublicClassPlaintext: the public crypto key is available while the manager is locked (and its
// passphrase is the well-known public one by default), so what it seals is only as secret as the public
// passphrase. An extended key whose serialisation is sealed under the public class must therefore be a
// neutered key: the result of Neuter(), or a parameter that the receiving function itself tests with IsPrivate()
// (rejecting or neutering a private key), or a parameter of a function all of whose callers pass such a key.
// privateEdgeReachesUse: x.IsPrivate() was called (test); some use of x other than x.Neuter() / x.IsPrivate() lies past
// an edge on which the answer was true (or the answer does not steer a branch at all).
func privateEdgeReachesUse(x ssa.Value, test *ssa.Call) bool {
	fn := test.Parent()
	steered := false
	for _, b := range fn.Blocks {
		iff, ok := b.Instrs[len(b.Instrs)-1].(*ssa.If)
		if !ok {
			continue
		}
		inner, neg := unwrapNot(iff.Cond)
		if inner != ssa.Value(test) {
			continue
		}
		steered = true
		si := 0
		if neg {
			si = 1
		}
		succ := b.Succs[si]
		reach := map[*ssa.BasicBlock]bool{}
		var walk func(bb *ssa.BasicBlock)
		walk = func(bb *ssa.BasicBlock) {
			if reach[bb] {
				return
			}
			reach[bb] = true
			for _, s := range bb.Succs {
				walk(s)
			}
		}
		walk(succ)
		for _, r := range *x.Referrers() {
			switch u := r.(type) {
			case *ssa.Call:
				if n := calleeShort(&u.Call); (n == "Neuter" || n == "IsPrivate") && len(u.Call.Args) > 0 && u.Call.Args[0] == x {
					continue
				}
			case *ssa.Phi:
				for i, e := range u.Edges {
					if e != x {
						continue
					}
					pred := u.Block().Preds[i]
					if (pred == b && u.Block() == succ) || reach[pred] {
						return true
					}
				}
				continue
			case *ssa.DebugRef:
				continue
			}
			if r.Block() != nil && reach[r.Block()] {
				return true
			}
		}
	}
	return !steered
}

func checkPublicClassPlaintext(c *Ctx, rule string) {
	p := c.P
	var keyIsPublic func(k ssa.Value, depth int, seen map[ssa.Value]bool) []string
	keyIsPublic = func(k ssa.Value, depth int, seen map[ssa.Value]bool) []string {
		if depth > 5 {
			return nil
		}
		var bad []string
		sl := &Slicer{P: p, KeepExtract: true}
		for _, o := range sl.Origins(k) {
			if seen[o] {
				continue
			}
			seen[o] = true
			switch x := o.(type) {
			case *ssa.Extract:
				if call, ok := x.Tuple.(*ssa.Call); ok && calleeShort(&call.Call) == "Neuter" && x.Index == 0 {
					continue
				}
				// a normalising part of the package (`publicKeyOf(k) (*ExtendedKey, error)`): what it returns
				if call, ok := x.Tuple.(*ssa.Call); ok {
					if h := call.Call.StaticCallee(); h != nil && h.Pkg != nil && fnPkgPath(h) == rel("waddrmgr") && len(h.Blocks) > 0 {
						for _, hb := range h.Blocks {
							if r, isRet := hb.Instrs[len(hb.Instrs)-1].(*ssa.Return); isRet && x.Index < len(r.Results) {
								rv := effectiveResult(r, x.Index)
								if isNilConst(rv) {
									continue
								}
								bad = append(bad, keyIsPublic(rv, depth+1, seen)...)
							}
						}
						continue
					}
				}
				bad = append(bad, describeValue(o))
			case *ssa.Parameter:
				fn := x.Parent()
				// the function itself tests the key it was given for privacy (and rejects or neuters it)
				// — "looks at it": past the edge on which IsPrivate answered true the key itself is used for nothing but its
				// Neuter() (a test whose private edge still reaches a use of the key decides nothing)
				tested := false
				for _, ci := range callsOf(fn) {
					if calleeShort(ci.Common()) == "IsPrivate" && len(ci.Common().Args) > 0 && stripConv(ci.Common().Args[0]) == ssa.Value(x) {
						if tc, isCall := ci.(*ssa.Call); isCall {
							tested = !privateEdgeReachesUse(x, tc)
						}
					}
				}
				if tested {
					continue
				}
				idx := paramIndex(fn, x)
				sites := p.callers(fn)
				if fn.Parent() == nil && token.IsExported(fn.Name()) {
					// an exported entry point that seals what it is given without looking at it
					bad = append(bad, "parameter "+x.Name()+" of exported "+fnName(fn)+" (never tested with IsPrivate)")
				} else if len(sites) == 0 {
					bad = append(bad, "parameter "+x.Name()+" of "+fnName(fn)+" (no callers found)")
				}
				for _, cs := range sites {
					args := cs.Common().Args
					ai := idx
					if cs.Common().IsInvoke() {
						ai = idx - 1
					}
					if ai < 0 || ai >= len(args) || strings.HasSuffix(p.Fset.Position(cs.Pos()).Filename, "_test.go") {
						continue
					}
					bad = append(bad, keyIsPublic(args[ai], depth+1, seen)...)
				}
			default:
				if _, f, _, ok := fieldOf(o); ok && strings.Contains(strings.ToLower(f), "pub") {
					continue // a stored public key field (acctKeyPub, ...)
				}
				bad = append(bad, describeValue(o))
			}
		}
		return bad
	}
	n := 0
	for _, fn := range p.FuncsIn("waddrmgr") {
		if strings.Contains(outermost(fn).Name(), "igrat") {
			continue
		}
		for _, ci := range callsOf(fn) {
			call, ok := ci.(*ssa.Call)
			if !ok || calleeShort(&call.Call) != "Encrypt" || len(call.Call.Args) == 0 {
				continue
			}
			recv := call.Call.Value
			if !call.Call.IsInvoke() {
				recv = call.Call.Args[0]
			}
			cls := keyClassOf(p, recv, 0)
			if len(cls) != 1 || !cls["pub"] {
				continue
			}
			plain := call.Call.Args[len(call.Call.Args)-1]
			for _, o := range (&Slicer{P: p, KeepExtract: true}).Origins(plain) {
				sc, ok := o.(*ssa.Call)
				if !ok || calleeShort(&sc.Call) != "String" || sc.Call.IsInvoke() || len(sc.Call.Args) == 0 {
					continue
				}
				if !strings.HasSuffix(sc.Call.Args[0].Type().String(), "hdkeychain.ExtendedKey") {
					continue
				}
				n++
				bad := keyIsPublic(sc.Call.Args[0], 0, map[ssa.Value]bool{})
				c.Check(rule, "public-class-seals-neutered-key:"+outermost(fn).Name(), call.Pos(), len(bad) == 0,
					"an extended key that is not the result of Neuter() is serialised and sealed under the PUBLIC crypto key in "+fnName(fn)+" ("+strings.Join(dedup(bad), "; ")+"): an extended private key would be readable from the file with the public passphrase alone and would survive conversion to watching-only in the 'public key' slot")
			}
		}
	}
	c.Floor(rule, "extended keys sealed under the public crypto key", n, 3)
}

// checkSnaclErrors: inside snacl every error result (scrypt.Key rejecting its parameters, a short read
// from the random source, a nested helper) must be propagated: none dropped, none turned into success on
// its failure branch. A swallowed KDF error leaves the all-zero key in place and everything sealed
// afterwards opens without any passphrase.
func checkSnaclErrors(c *Ctx, rule string) {
	p := c.P
	ed := &errDisc{p: p, carriers: map[*ssa.Function]bool{}, flowCalls: map[*ssa.Function][]*ssa.Call{}}
	n := 0
	for _, fn := range p.FuncsIn("snacl") {
		for _, ci := range callsOf(fn) {
			call, ok := ci.(*ssa.Call)
			if !ok || callErrIndex(call.Common()) < 0 {
				continue
			}
			n++
			res := ed.checkSite(call)
			kind := res.kind
			if kind == "" {
				kind = "propagated"
			}
			c.Check(rule, fmt.Sprintf("snacl-error-propagated:%s/%s", fnName(fn), calleeDesc(call.Common())), call.Pos(), res.ok,
				"an error inside snacl is "+kind+": "+res.detail+" — the caller continues with a key that was never derived (all-zero) or a nonce that was never filled")
		}
	}
	c.Floor(rule, "error-returning calls inside snacl", n, 4)
	// ... and at the address manager's calls INTO the crypto layer: a failed Decrypt / Encrypt / DeriveKey / Unmarshal is
	// reported by the caller — never tested and then stepped over (`if pt, err := k.Decrypt(ct); err == nil { use(pt) }`
	// followed by a test of another err): the manager would go on with an all-zero key and seal data under it
	crypto := map[string]bool{"Decrypt": true, "Encrypt": true, "DeriveKey": true, "Unmarshal": true, "NewSecretKey": true, "GenerateCryptoKey": true}
	ed2 := newErrDisc(p)
	m := 0
	for _, fn := range p.FuncsIn("waddrmgr") {
		for _, ci := range callsOf(fn) {
			call, ok := ci.(*ssa.Call)
			if !ok || callErrIndex(call.Common()) < 0 || !crypto[calleeShort(call.Common())] {
				continue
			}
			if g := call.Call.StaticCallee(); g != nil && shortPkg(fnPkgPath(g)) == "waddrmgr" && g.Signature.Recv() != nil && recvName(g) == "Manager" {
				continue // the manager's own exported Encrypt/Decrypt wrappers are API, not the crypto layer
			}
			m++
			res := ed2.checkSite(call)
			kind := res.kind
			if kind == "" {
				kind = "propagated"
			}
			c.Check(rule, fmt.Sprintf("crypto-error-reported:%s/%s", fnName(fn), calleeDesc(call.Common())), call.Pos(), res.ok,
				"an error of the crypto layer is "+kind+" in "+fnName(fn)+": "+res.detail+" — the address manager continues with key material that was never decrypted (all-zero key) or with ciphertext that was never produced")
		}
	}
	c.Floor(rule, "calls from the address manager into the crypto layer", m, 20)
}

// checkAddrCacheAfterLastWrite: within one operation, an address object is put into the scoped manager's
// address cache (ScopedKeyManager.addrs) only after the operation's last fallible database write: a write
// that fails after the insertion leaves a cached address the rolled-back database does not know (queries
// report it, a retry is refused as a duplicate). Within-operation ordering only; the enclosing-transaction
// clause (cache filled before the commit) is the advisory of C10-R2.
func checkAddrCacheAfterLastWrite(c *Ctx, rule string) {
	p := c.P
	ed := newErrDisc(p)
	n := 0
	for _, fn := range p.FuncsIn("waddrmgr") {
		for _, b := range fn.Blocks {
			for _, ins := range b.Instrs {
				mu, ok := ins.(*ssa.MapUpdate)
				if !ok {
					continue
				}
				tn, f, _, okf := fieldOf(stripConv(mu.Map))
				if !okf || !(tn == "ScopedKeyManager" && f == "addrs" || tn == "Manager" && f == "scopedManagers") {
					continue
				}
				n++
				q := &PathQuery{Fn: fn, Target: func(i ssa.Instruction, _ *ssa.BasicBlock) bool {
					call, ok := i.(*ssa.Call)
					return ok && ed.isCarrierSite(call)
				}}
				hits := q.From(mu)
				detail := ""
				if len(hits) > 0 {
					detail = fmt.Sprintf("%s registers the object in memory ("+tn+"."+f+") and then performs another fallible database write (%s at %s): if that write fails the transaction is rolled back but memory keeps an entry the database does not know",
						fnName(fn), ed.siteName(hits[0].Ins.(*ssa.Call)), p.Pos(hits[0].Ins.Pos()))
				}
				c.Check(rule, map[string]string{"addrs": "address-cached-after-last-write:", "scopedManagers": "scope-registered-after-last-write:"}[f]+fnName(fn), mu.Pos(), len(hits) == 0, detail)
			}
		}
	}
	c.Floor(rule, "address-cache insertions", n, 5)
}

// checkSelectedKeyUsedUnderLock: Manager.lock() zeroes the crypto keys IN PLACE under the manager's write
// lock, and selectCryptoKey hands out a pointer to the live key. Every use of a key obtained from
// selectCryptoKey must therefore happen with the manager mutex still held (read or write) — otherwise a
// concurrent Lock() between selection and use makes Encrypt seal under the all-zero key and report success.
func checkSelectedKeyUsedUnderLock(c *Ctx, rule string) {
	p := c.P
	sel := p.Func("waddrmgr", "Manager", "selectCryptoKey")
	if sel == nil {
		c.Unresolved(rule, "Manager.selectCryptoKey")
		return
	}
	n := 0
	for _, cs := range p.callers(sel) {
		selCall, ok := cs.(*ssa.Call)
		if !ok {
			continue
		}
		fn := selCall.Parent()
		// uses: calls whose receiver derives from the selection result
		for _, ci := range callsOf(fn) {
			use, ok := ci.(*ssa.Call)
			if !ok {
				continue
			}
			// the key is the receiver of an interface call, or the receiver argument of a method expression held in a
			// function value (`op(key, in)` with op = EncryptorDecryptor.Encrypt)
			var keyVals []ssa.Value
			method := ""
			switch {
			case use.Call.IsInvoke():
				keyVals, method = []ssa.Value{use.Call.Value}, use.Call.Method.Name()
			case use.Call.StaticCallee() == nil && len(use.Call.Args) > 0:
				keyVals, method = []ssa.Value{use.Call.Args[0]}, "op"
			default:
				continue
			}
			derives := false
			for _, kv := range keyVals {
				for _, o := range (&Slicer{P: p, KeepExtract: true}).Origins(kv) {
					if ex, ok := o.(*ssa.Extract); ok && ex.Tuple == ssa.Value(selCall) {
						derives = true
					}
				}
			}
			if !derives {
				continue
			}
			n++
			held, why := p.heldUpward(use, 0, map[*ssa.Function]bool{})
			ok2 := held["waddrmgr.Manager.mtx"] || held["waddrmgr.Manager.mtx(R)"]
			c.Check(rule, "selected-key-used-under-manager-lock:"+fnName(fn)+"/"+method, use.Pos(), ok2,
				fmt.Sprintf("%s uses the key returned by selectCryptoKey without holding the manager mutex (held: %s; %s): a concurrent Lock() zeroes that key in place, and the operation then succeeds under the all-zero key", fnName(fn), lsString(held), strings.Join(why, "; ")))
		}
	}
	c.Floor(rule, "uses of a selected crypto key", n, 2)
}

// checkPendingDerivationsHaveAccounts: addresses issued while locked are queued (deriveOnUnlock) and get their
// private keys at the next Unlock from their account's private key. Unlock decrypts account keys only for
// accounts in the cache, and a load during Unlock (still flagged locked) yields no private key. So either
// (a) Unlock loads the accounts of all pending entries before the account-key decryption, or (b) nothing can
// evict an account from the cache without also dropping its pending entries. Otherwise the derivation falls
// back to the public key and the correct passphrase fails (or crashes) instead of unlocking.
func checkPendingDerivationsHaveAccounts(c *Ctx, rule string) {
	p := c.P
	ul := p.Func("waddrmgr", "Manager", "Unlock")
	load := p.Func("waddrmgr", "ScopedKeyManager", "loadAccountInfo")
	if ul == nil || load == nil {
		c.Unresolved(rule, "Manager.Unlock / ScopedKeyManager.loadAccountInfo")
		return
	}
	reachesLoad := p.reachingCall(load)
	var decs []*ssa.Call
	for _, part := range p.regionOf(ul) {
		for _, ci := range callsOf(part) {
			call, ok := ci.(*ssa.Call)
			if !ok || calleeShort(&call.Call) != "Decrypt" || len(call.Call.Args) == 0 {
				continue
			}
			if tn, f, _, okf := fieldOf(stripConv(call.Call.Args[len(call.Call.Args)-1])); okf && tn == "accountInfo" && f == "acctKeyEncrypted" {
				decs = append(decs, call)
			}
		}
	}
	c.Floor(rule, "account-key decryptions in Unlock", len(decs), 1)
	// (b) evictions
	evictionsSafe := true
	nEvict := 0
	for _, fn := range p.FuncsIn("waddrmgr") {
		for _, ci := range callsOf(fn) {
			call, ok := ci.(*ssa.Call)
			if !ok || calleeShort(&call.Call) != "delete" || len(call.Call.Args) == 0 {
				continue
			}
			if tn, f, _, okf := fieldOf(stripConv(call.Call.Args[0])); !okf || tn != "ScopedKeyManager" || f != "acctInfo" {
				continue
			}
			nEvict++
			drops := false
			for _, b := range fn.Blocks {
				for _, ins := range b.Instrs {
					if st, ok := ins.(*ssa.Store); ok {
						if fa, ok := st.Addr.(*ssa.FieldAddr); ok {
							if tn, f := fieldAddrName(fa); tn == "ScopedKeyManager" && f == "deriveOnUnlock" {
								drops = true
							}
						}
					}
				}
			}
			if !drops {
				evictionsSafe = false
			}
		}
	}
	for _, dec := range decs {
		// the preload loop runs to completion before the decryption: in the same function, or — when the steps of Unlock
		// have been extracted — before the call (chain) that leads to it
		preloaded := p.precededInRegion(ul, dec, func(f *ssa.Function, at ssa.Instruction) bool {
			for _, l := range loopsOf(f) {
				if l.Kind == "for" || !strings.Contains(l.Over, "deriveOnUnlock") || !l.containsInstr(reachesLoad) {
					continue
				}
				if l.Header.Dominates(at.Block()) && !l.Blocks[at.Block()] {
					return true
				}
			}
			return false
		}, 0)
		c.Check(rule, "pending-derivations-have-cached-accounts", dec.Pos(), preloaded || (evictionsSafe && nEvict > 0),
			"Unlock decrypts the private keys of cached accounts only, but does not first load the accounts of the addresses queued for derive-on-unlock, and accounts can be evicted from the cache without dropping their queued addresses: the queued derivation then runs without a private account key and the correct passphrase fails (nil private key) instead of unlocking")
	}
}

// checkHashedBucketKeys: the address, used-address and address->account-index buckets are keyed by
// sha256(address id) by their writers (C04-R3). Every direct Get/Put/Delete on one of these buckets, readers
// included, must use a key that derives from sha256.Sum256: a reader looking up the raw id never finds the row
// (the duplicate check silently stops working and an import can overwrite an issued address's row), a writer
// using the raw id puts the address hash / public key in the clear.
func checkHashedBucketKeys(c *Ctx, rule string) {
	p := c.P
	hashed := map[string]bool{"addrBucketName": true, "usedAddrBucketName": true, "addrAcctIdxBucketName": true}
	n := 0
	for _, fn := range p.FuncsIn("waddrmgr") {
		if strings.Contains(outermost(fn).Name(), "igrat") {
			continue
		}
		for _, ci := range callsOf(fn) {
			call, ok := ci.(*ssa.Call)
			if !ok || !call.Call.IsInvoke() || len(call.Call.Args) == 0 {
				continue
			}
			m := call.Call.Method.Name()
			if m != "Get" && m != "Put" && m != "Delete" {
				continue
			}
			if call.Call.Method.Pkg() == nil || call.Call.Method.Pkg().Path() != walletdbPath {
				continue
			}
			bucketName := ""
			for _, o := range bucketOrigins(p, call) {
				nb, ok := o.(*ssa.Call)
				if !ok || !strings.HasPrefix(calleeShort(&nb.Call), "Nested") || len(nb.Call.Args) == 0 {
					continue
				}
				for g := range hashed {
					if isGlobalLoad(nb.Call.Args[len(nb.Call.Args)-1], g) {
						bucketName = g
					}
				}
			}
			if bucketName == "" {
				continue
			}
			n++
			okKey := false
			sl := &Slicer{P: p, InterProc: true, ThroughCallArgs: func(call *ssa.Call, arg ssa.Value) bool { return false },
				ThroughReturns: func(callee *ssa.Function) bool { return fnPkgPath(callee) == fnPkgPath(fn) }} // a same-package hashing helper
			for _, o := range sl.Origins(call.Call.Args[0]) {
				if sc, ok := o.(*ssa.Call); ok && calleeShort(&sc.Call) == "Sum256" {
					okKey = true
				}
				// the key handed to a ForEach / cursor callback: read back from the bucket, hashed by its writer
				if prm, ok := o.(*ssa.Parameter); ok && prm.Parent().Parent() != nil && len(p.callers(prm.Parent())) == 0 {
					okKey = true
				}
				if al, ok := o.(*ssa.Alloc); ok {
					for _, st := range storesTo(al) {
						if sc, ok := st.Val.(*ssa.Call); ok && calleeShort(&sc.Call) == "Sum256" {
							okKey = true
						}
					}
				}
			}
			c.Check(rule, fmt.Sprintf("hashed-bucket-key:%s/%s.%s", fnName(fn), bucketName, m), call.Pos(), okKey,
				fmt.Sprintf("%s accesses bucket %s with a key that is not sha256(address id), while the bucket's rows are keyed by that hash: the lookup never matches its writer's rows (or the raw id is stored in the clear)", fnName(fn), bucketName))
		}
	}
	c.Floor(rule, "direct accesses to the hashed address buckets", n, 6)
}

// checkLiveKeysUsedUnderLock: the private crypto keys and the private master key live in the Manager and are
// zeroed IN PLACE by lock() under the manager's write lock. A method of Manager that uses one of them (calls a
// method on it, or hands it to a callee) must hold the manager mutex at that point, on every call chain:
// otherwise a concurrent Lock() between the lock check and the use makes Encrypt seal under the all-zero key
// (the secret is then in the database effectively unencrypted) while the operation reports success.
func checkLiveKeysUsedUnderLock(c *Ctx, rule string) {
	p := c.P
	live := map[string]bool{"cryptoKeyPriv": true, "cryptoKeyScript": true, "masterKeyPriv": true}
	n := 0
	for _, fn := range p.FuncsIn("waddrmgr") {
		if fn.Signature.Recv() == nil || recvName(fn) != "Manager" || fn.Parent() != nil || len(fn.Params) == 0 {
			continue
		}
		var isLiveLoad func(v ssa.Value) bool
		isLiveLoad = func(v ssa.Value) bool {
			v = stripConv(v)
			if tn, f, base, ok := fieldOf(v); ok && tn == "Manager" && live[f] && base == ssa.Value(fn.Params[0]) {
				return true
			}
			// the key copied into a local that a function literal of the method captures
			if u, ok := v.(*ssa.UnOp); ok && u.Op == token.MUL {
				var cell ssa.Value = u.X
				if fv, isFV := cell.(*ssa.FreeVar); isFV {
					cell = freeVarRoot(fv)
				}
				if al, isAl := cell.(*ssa.Alloc); isAl {
					for _, st := range storesTo(al) {
						if st.Val != v && isLiveLoad(st.Val) {
							return true
						}
					}
				}
			}
			if fv, isFV := v.(*ssa.FreeVar); isFV {
				if r := freeVarRoot(fv); r != ssa.Value(fv) {
					return isLiveLoad(r)
				}
			}
			return false
		}
		var sites []ssa.CallInstruction
		for _, f := range Closures(fn) {
			sites = append(sites, callsOf(f)...)
		}
		for _, ci := range sites {
			cc := ci.Common()
			uses := false
			if cc.IsInvoke() && isLiveLoad(cc.Value) {
				uses = true
			}
			for _, a := range cc.Args {
				if isLiveLoad(a) {
					uses = true
				}
			}
			if !uses {
				continue
			}
			n++
			held, why := p.heldUpward(ci, 0, map[*ssa.Function]bool{})
			ok := held["waddrmgr.Manager.mtx"] || held["waddrmgr.Manager.mtx(R)"]
			c.Check(rule, "live-key-used-under-manager-lock:"+fnName(fn)+"/"+calleeDesc(cc), ci.Pos(), ok,
				fmt.Sprintf("%s uses a private crypto/master key of the manager without holding the manager mutex (held: %s; %s): lock() zeroes these keys in place, so a concurrent Lock() makes the operation run with the all-zero key", fnName(fn), lsString(held), strings.Join(why, "; ")))
		}
	}
	c.Floor(rule, "uses of the live private keys in Manager methods", n, 8)
}

// checkIssuersPersistEveryAddress: both issuers first derive a batch of addresses and then persist it; the
// persisting loop must write a row for every derived address (the only legitimate way past the write is the
// type switch not matching the address kind). A shortcut that skips the write for some addresses ("already
// known", judged by the in-memory cache) leaves memory ahead of the database.
func checkIssuersPersistEveryAddress(c *Ctx, rule string) {
	p := c.P
	isWrite := func(i ssa.Instruction) bool {
		call, ok := i.(*ssa.Call)
		if !ok {
			return false
		}
		n := calleeShort(&call.Call)
		return n == "putChainedAddress" || n == "putScriptAddress"
	}
	typeSwitchMiss := func(from *ssa.BasicBlock, si int) bool {
		f := edgeFactOf(from, si)
		if f == nil || f.Kind != "false" {
			return false
		}
		if ex, ok := f.V.(*ssa.Extract); ok {
			if ta, ok := ex.Tuple.(*ssa.TypeAssert); ok && ta.CommaOk {
				return true
			}
		}
		return false
	}
	n := 0
	for _, fnn := range []string{"nextAddresses", "extendAddresses"} {
		fn := p.Func("waddrmgr", "ScopedKeyManager", fnn)
		if fn == nil {
			c.Unresolved(rule, "ScopedKeyManager."+fnn)
			continue
		}
		for _, l := range loopsOf(fn) {
			if l.Kind == "for" || !l.containsInstr(func(i ssa.Instruction) bool { return isCallNamed("putChainedAddress")(i) }) {
				continue
			}
			n++
			bad := l.MustPassPerIteration(p, isWrite, typeSwitchMiss)
			c.Check(rule, "every-derived-address-is-persisted:"+fnn, l.Header.Instrs[0].Pos(), bad == "" && len(l.EarlyExits(p)) == 0,
				fnn+" can skip the database write for a derived address ("+bad+"): the in-memory indices advance while the address row and the persisted next index do not")
		}
	}
	c.Floor(rule, "address-persisting loops in the issuers", n, 2)
}

// checkDerivationPathLiterals (sibling agreement): every place in waddrmgr that builds the DerivationPath of a
// managed address fills the same set of fields. The path built while an address is issued is what the running
// manager reports; the one built by the loader is what a restarted manager reports — a field set by one and
// forgotten by the other makes the two disagree.
func checkDerivationPathLiterals(c *Ctx, rule string) {
	p := c.P
	type lit struct {
		fn     *ssa.Function
		al     *ssa.Alloc
		fields map[string]bool
	}
	var lits []*lit
	for _, fn := range p.FuncsIn("waddrmgr") {
		byAlloc := map[*ssa.Alloc]*lit{}
		for _, b := range fn.Blocks {
			for _, ins := range b.Instrs {
				st, ok := ins.(*ssa.Store)
				if !ok {
					continue
				}
				fa, ok := st.Addr.(*ssa.FieldAddr)
				if !ok {
					continue
				}
				al, ok := fa.X.(*ssa.Alloc)
				if !ok {
					continue
				}
				tn, f := fieldAddrName(fa)
				if tn != "DerivationPath" {
					continue
				}
				l := byAlloc[al]
				if l == nil {
					l = &lit{fn, al, map[string]bool{}}
					byAlloc[al] = l
					lits = append(lits, l)
				}
				l.fields[f] = true
			}
		}
	}
	union := map[string]bool{}
	for _, l := range lits {
		if !l.fields["InternalAccount"] {
			continue
		}
		for f := range l.fields {
			union[f] = true
		}
	}
	n := 0
	for _, l := range lits {
		if !l.fields["InternalAccount"] {
			continue // not the path of an account's address (e.g. a partial path used as a lookup key)
		}
		n++
		var missing []string
		for f := range union {
			if !l.fields[f] {
				missing = append(missing, f)
			}
		}
		sort.Strings(missing)
		c.Check(rule, "derivation-path-literal-complete:"+outermost(l.fn).Name(), l.al.Pos(), len(missing) == 0,
			fmt.Sprintf("%s builds an address's DerivationPath without %v, which the sibling constructions fill in: the running manager and a restarted one report different derivation metadata for the same address", fnName(l.fn), missing))
	}
	c.Floor(rule, "DerivationPath constructions for account addresses", n, 4)
	// ... and from the same source: the reported account is the child index of the account KEY (for an imported xpub it
	// differs from the wallet-internal account number the row is stored under)
	nAcct := 0
	for _, fn := range p.FuncsIn("waddrmgr") {
		for _, b := range fn.Blocks {
			for _, ins := range b.Instrs {
				st, ok := ins.(*ssa.Store)
				if !ok {
					continue
				}
				fa, ok := st.Addr.(*ssa.FieldAddr)
				if !ok {
					continue
				}
				tn, f := fieldAddrName(fa)
				if tn != "DerivationPath" || f != "Account" {
					continue
				}
				if _, isAlloc := fa.X.(*ssa.Alloc); !isAlloc {
					continue
				}
				nAcct++
				okSrc := false
				for _, o := range (&Slicer{P: p, ThroughBinOp: true}).Origins(st.Val) {
					if call, ok := o.(*ssa.Call); ok && calleeShort(&call.Call) == "ChildIndex" {
						okSrc = true
					}
				}
				c.Check(rule, "derivation-path-account-is-key-child-index:"+outermost(fn).Name(), st.Pos(), okSrc,
					fnName(fn)+" fills DerivationPath.Account from something other than the account key's ChildIndex() (e.g. the internal account number): for an imported account key the reported path names the wrong account, and differs from what the issuing code reported for the same address")
			}
		}
	}
	c.Floor(rule, "DerivationPath.Account assignments", nAcct, 4)
}

// checkMirrorStoresOnOwnBranch: the issuers keep per-branch state (next index and last address, external and
// internal). A store to an external-branch field must be reachable only when the issuer's `internal` flag is
// false, a store to an internal-branch field only when it is true; a store hoisted out of the branch makes a
// change address the account's "current receiving address" (handed out again by CurrentAddress) and the mirror
// disagree with what the loader rebuilds from the database.
func checkMirrorStoresOnOwnBranch(c *Ctx, rule string) {
	p := c.P
	n := 0
	for _, fnn := range []string{"nextAddresses", "extendAddresses"} {
		top := p.Func("waddrmgr", "ScopedKeyManager", fnn)
		if top == nil {
			c.Unresolved(rule, "ScopedKeyManager."+fnn)
			continue
		}
		var flag *ssa.Parameter
		for _, prm := range top.Params {
			if b, ok := prm.Type().Underlying().(*types.Basic); ok && b.Kind() == types.Bool {
				flag = prm
			}
		}
		if flag == nil {
			c.Unresolved(rule, "branch flag parameter of "+fnn)
			continue
		}
		isFlag := func(v ssa.Value) bool {
			v = stripConv(v)
			if u, ok := v.(*ssa.UnOp); ok && u.Op == token.MUL {
				v = u.X
			}
			if v == ssa.Value(flag) {
				return true
			}
			if fa, ok := v.(*ssa.FieldAddr); ok {
				for _, u := range usesOf(fa) {
					if ld, ok := u.(*ssa.UnOp); ok {
						if vals := p.boundFieldStores(ld); len(vals) == 1 && stripConv(vals[0]) == ssa.Value(flag) {
							return true
						}
					}
				}
			}
			if fv, ok := v.(*ssa.FreeVar); ok {
				r := freeVarRoot(fv)
				if r == ssa.Value(flag) {
					return true
				}
				if al, ok := r.(*ssa.Alloc); ok {
					for _, st := range storesTo(al) {
						if st.Val == ssa.Value(flag) {
							return true
						}
					}
				}
			}
			return false
		}
		for _, fn := range p.regionOf(top) {
			for _, b := range fn.Blocks {
				for _, ins := range b.Instrs {
					st, ok := ins.(*ssa.Store)
					if !ok {
						continue
					}
					fa, ok := st.Addr.(*ssa.FieldAddr)
					if !ok {
						continue
					}
					tn, f := fieldAddrName(fa)
					if tn != "accountInfo" || !isIndexMirror(f) {
						continue
					}
					wantKind := "false"
					if strings.Contains(f, "Internal") {
						wantKind = "true"
					}
					n++
					reach := reachableAvoiding(fn, nil, st, func(from *ssa.BasicBlock, si int) bool {
						ef := edgeFactOf(from, si)
						return ef != nil && ef.Kind == wantKind && isFlag(ef.V)
					})
					c.Check(rule, fmt.Sprintf("branch-state-stored-on-own-branch:%s.%s", fnn, f), st.Pos(), !reach,
						fmt.Sprintf("%s stores %s on a path that is not restricted to the %s branch: the other branch's issue overwrites it (e.g. a change address becomes the account's last external address and CurrentAddress hands it out as a receiving address)", fnn, f, map[string]string{"true": "internal", "false": "external"}[wantKind]))
				}
			}
		}
	}
	c.Floor(rule, "per-branch mirror stores in the issuers", n, 8)
}

// checkNoOverRejectingLengthGuard: on the decryption paths (snacl.CryptoKey.Decrypt, snacl.SecretKey.Decrypt,
// waddrmgr.Manager.Decrypt) a length test on the ciphertext may reject only inputs that cannot be a genuine
// ciphertext: shorter than nonce + authenticator. The encryption of the EMPTY plaintext is exactly that long
// and must still be accepted. Every integer guard over len(<ciphertext parameter>) whose outcome leads to an
// error return is normalised to "len - K < 0" and K must not exceed NonceSize + Overhead.
func checkNoOverRejectingLengthGuard(c *Ctx, rule string) {
	p := c.P
	nonce, ok1 := constInPkg(p, "snacl", "NonceSize")
	over, ok2 := constInPkg(p, "snacl", "Overhead")
	if !ok1 || !ok2 {
		c.Unresolved(rule, "snacl.NonceSize / snacl.Overhead")
		return
	}
	limit := nonce + over
	fns := []*ssa.Function{p.Func("snacl", "CryptoKey", "Decrypt"), p.Func("snacl", "SecretKey", "Decrypt"), p.Func("waddrmgr", "Manager", "Decrypt")}
	n := 0
	for _, fn := range fns {
		if fn == nil {
			c.Unresolved(rule, "a Decrypt entry point (snacl.CryptoKey / snacl.SecretKey / waddrmgr.Manager)")
			continue
		}
		n++
		okAll, detail := true, ""
		for _, b := range fn.Blocks {
			if len(b.Instrs) == 0 {
				continue
			}
			iff, ok := b.Instrs[len(b.Instrs)-1].(*ssa.If)
			if !ok {
				continue
			}
			for si := 0; si < 2; si++ {
				f, ok := p.cmpForm(iff.Cond, si == 0)
				if !ok || f.Rel != "<" || len(f.L.Coef) != 1 {
					continue
				}
				atom, cf := "", int64(0)
				for a, v := range f.L.Coef {
					atom, cf = a, v
				}
				if !strings.HasPrefix(atom, "call:len(") || !strings.Contains(atom, "param#") || cf != 1 {
					continue // not "len(param) - K < 0"
				}
				k := -f.L.Konst
				// does this outcome lead (only) to error returns?
				q := &PathQuery{Fn: fn, Target: p.nonErrorReturn()}
				if len(exploreFromBlock(q, b.Succs[si], b)) > 0 {
					continue
				}
				if k > limit {
					okAll = false
					detail = fmt.Sprintf("%s rejects ciphertexts with '%s' (length below %d) although a genuine ciphertext can be as short as NonceSize+Overhead = %d bytes (the encryption of the empty plaintext)", fnName(fn), f.String(), k, limit)
				}
			}
		}
		c.Check(rule, "length-guard-accepts-minimal-ciphertext:"+fnName(fn), fn.Pos(), okAll, detail)
	}
	c.Floor(rule, "decryption entry points", n, 3)
}

// checkCacheHitReturnsCopy: the derived-private-key cache hands out a COPY of the cached key: callers wipe the
// key they were given after signing (key.Zero()), which must not wipe the cache entry — or every later request
// for that path returns the all-zero scalar while the wallet is unlocked.
func checkCacheHitReturnsCopy(c *Ctx, rule string) {
	p := c.P
	fn := p.Func("waddrmgr", "ScopedKeyManager", "DeriveFromKeyPathCache")
	if fn == nil {
		c.Unresolved(rule, "ScopedKeyManager.DeriveFromKeyPathCache")
		return
	}
	n := 0
	for _, b := range fn.Blocks {
		for _, ins := range b.Instrs {
			// results are spilled to named slots by the deferred unlock: look at what is stored into result #0
			var v ssa.Value
			switch x := ins.(type) {
			case *ssa.Return:
				if len(x.Results) == 0 {
					continue
				}
				if ld, ok := x.Results[0].(*ssa.UnOp); ok {
					if a, ok := ld.X.(*ssa.Alloc); ok && resultSlot(a) {
						continue // handled at the stores
					}
				}
				v = x.Results[0]
			case *ssa.Store:
				a, ok := x.Addr.(*ssa.Alloc)
				if !ok || !resultSlot(a) || isErrorType(x.Val.Type()) {
					continue
				}
				v = x.Val
			default:
				continue
			}
			if isNilConst(v) {
				continue
			}
			r := ins
			n++
			v = stripConv(v)
			alias := false
			// an address computed inside a value obtained from the cache (field/element of the cached entry)
			cur := v
			for depth := 0; depth < 4; depth++ {
				switch x := cur.(type) {
				case *ssa.FieldAddr:
					cur = x.X
					for _, o := range (&Slicer{P: p, KeepExtract: true}).Origins(cur) {
						if ex, ok := o.(*ssa.Extract); ok {
							if call, ok := ex.Tuple.(*ssa.Call); ok && calleeShort(&call.Call) == "Get" {
								alias = true
							}
						}
					}
					continue
				case *ssa.IndexAddr:
					cur = x.X
					continue
				}
				break
			}
			c.Check(rule, "cache-hit-returns-a-copy", r.Pos(), !alias,
				"DeriveFromKeyPathCache returns a pointer into the cached entry instead of a copy: a caller that wipes the key it received wipes the cache, and later requests for the same path get the all-zero key")
		}
	}
	c.Floor(rule, "key-returning exits of DeriveFromKeyPathCache", n, 2)
}

// checkZeroMethodsWipeInPlace: the wipe methods of the key types clear the bytes where they are: every path
// of a Zero method passes a zeroing primitive (internal/zero, or the Zero of a component it owns) applied to
// its own storage. Replacing the buffer by a fresh one (`sk.Key = &CryptoKey{}`) reads as zero through the
// holder but leaves the old clear-text key in memory.
func checkZeroMethodsWipeInPlace(c *Ctx, rule string) {
	p := c.P
	n := 0
	for _, spec := range [][3]string{{"snacl", "CryptoKey", "Zero"}, {"snacl", "SecretKey", "Zero"}, {"waddrmgr", "cryptoKey", "Zero"}} {
		fn := p.Func(spec[0], spec[1], spec[2])
		if fn == nil {
			continue
		}
		n++
		wipes := func(i ssa.Instruction) bool {
			call, ok := i.(*ssa.Call)
			if !ok {
				return false
			}
			g := call.Call.StaticCallee()
			if g == nil {
				return false
			}
			if g.Pkg != nil && strings.HasSuffix(g.Pkg.Pkg.Path(), "internal/zero") {
				return true
			}
			return g.Name() == "Zero" && g != fn
		}
		bad := false
		q := &PathQuery{Fn: fn, Barrier: wipes, Target: func(i ssa.Instruction, _ *ssa.BasicBlock) bool { _, ok := i.(*ssa.Return); return ok }}
		if len(q.From(nil)) > 0 {
			bad = true
		}
		c.Check(rule, "zero-method-wipes-in-place:"+spec[1], fn.Pos(), !bad,
			fmt.Sprintf("(%s.%s).Zero can return without having zeroed its key bytes in place (e.g. it swaps in a fresh key object): the old clear-text key stays in memory after Lock", spec[0], spec[1]))
		// and it must not replace the storage it is supposed to wipe
		for _, b := range fn.Blocks {
			for _, ins := range b.Instrs {
				if st, ok := ins.(*ssa.Store); ok {
					if fa, ok := st.Addr.(*ssa.FieldAddr); ok && len(fn.Params) > 0 && fa.X == ssa.Value(fn.Params[0]) {
						if _, isPtr := st.Val.Type().Underlying().(*types.Pointer); isPtr {
							c.Check(rule, "zero-method-keeps-its-buffer:"+spec[1], st.Pos(), false,
								fmt.Sprintf("(%s.%s).Zero replaces the pointer to its key buffer: the bytes of the old buffer are not wiped", spec[0], spec[1]))
						}
					}
				}
			}
		}
	}
	c.Floor(rule, "Zero methods of key types", n, 3)
}

// checkNoKeyMaterialInNames: account names, labels and other clear-text columns are formatted strings; no key
// object (extended key, EC key) may be formatted into a string that is then used for anything but an error or a
// log message — `fmt.Sprintf("act:%v", pubKey)` puts the base58 key into the unencrypted name column and
// both name indexes.
func checkNoKeyMaterialInNames(c *Ctx, rule string) {
	p := c.P
	isKeyType := func(t types.Type) bool {
		s := t.String()
		return strings.HasSuffix(s, "hdkeychain.ExtendedKey") || strings.HasSuffix(s, "btcec/v2.PrivateKey") || strings.HasSuffix(s, "btcec/v2.PublicKey") || strings.HasSuffix(s, "snacl.CryptoKey") || strings.HasSuffix(s, "snacl.SecretKey")
	}
	n := 0
	for _, fn := range p.FuncsIn("waddrmgr") {
		for _, ci := range callsOf(fn) {
			call, ok := ci.(*ssa.Call)
			if !ok {
				continue
			}
			g := call.Call.StaticCallee()
			if g == nil || g.Pkg == nil || g.Pkg.Pkg.Path() != "fmt" || !strings.HasPrefix(g.Name(), "Sprint") {
				continue
			}
			n++
			// variadic args: slice of interfaces built from MakeInterface values
			keyArg := ""
			for _, o := range (&Slicer{P: p, ThroughFieldsOfAllocs: true}).Origins(call.Call.Args[len(call.Call.Args)-1]) {
				if mi, ok := o.(*ssa.MakeInterface); ok && isKeyType(mi.X.Type()) {
					keyArg = mi.X.Type().String()
				}
			}
			if keyArg == "" {
				// look at the varargs array stores directly
				if sl, ok := call.Call.Args[len(call.Call.Args)-1].(*ssa.Slice); ok {
					if al, ok := sl.X.(*ssa.Alloc); ok {
						for _, u := range usesOf(al) {
							if ia, ok := u.(*ssa.IndexAddr); ok {
								for _, u2 := range usesOf(ia) {
									if st, ok := u2.(*ssa.Store); ok {
										if mi, ok := st.Val.(*ssa.MakeInterface); ok && isKeyType(mi.X.Type()) {
											keyArg = mi.X.Type().String()
										}
									}
								}
							}
						}
					}
				}
			}
			if keyArg == "" {
				continue
			}
			// the formatted string may only feed error constructors / loggers
			okUse := true
			for _, u := range usesOf(call) {
				uc, isCall := u.(*ssa.Call)
				if !isCall {
					okUse = false
					continue
				}
				nm := calleeShort(&uc.Call)
				if nm != "managerError" && nm != "New" && nm != "Errorf" && !isLoggerCall(&uc.Call) {
					okUse = false
				}
			}
			c.Check(rule, "no-key-formatted-into-stored-text:"+fnName(fn), call.Pos(), okUse,
				fmt.Sprintf("%s formats a %s into a string that is used as data (not as an error/log message): the key's text form ends up in a clear-text column of the database (account name, name index)", fnName(fn), keyArg))
		}
	}
	c.Floor(rule, "fmt.Sprint* calls in waddrmgr", n, 20)
}

// checkStartBlockDecision: an import moves the manager's start block back when the imported item was first
// seen before it. Both the decision to write the new start block to the database and the decision to update it
// in memory compare the import's height with the START block — not with the synced-to block (a mix makes disk
// and memory decide differently, and a restart then rescans from a different block than the running manager).
func checkStartBlockDecision(c *Ctx, rule string) {
	p := c.P
	n := 0
	for _, fnn := range []string{"importPublicKey", "importScriptAddress"} {
		fn := p.Func("waddrmgr", "ScopedKeyManager", fnn)
		if fn == nil {
			c.Unresolved(rule, "ScopedKeyManager."+fnn)
			continue
		}
		for _, f := range Closures(fn) {
			for _, b := range f.Blocks {
				for _, ins := range b.Instrs {
					bo, ok := ins.(*ssa.BinOp)
					if !ok || (bo.Op != token.LSS && bo.Op != token.GTR && bo.Op != token.LEQ && bo.Op != token.GEQ) {
						continue
					}
					// a Height field reached through the manager's syncState
					for _, side := range []ssa.Value{bo.X, bo.Y} {
						ld, ok := stripConv(side).(*ssa.UnOp)
						if !ok || ld.Op != token.MUL {
							continue
						}
						fa, ok := ld.X.(*ssa.FieldAddr)
						if !ok {
							continue
						}
						if _, fld := fieldAddrName(fa); fld != "Height" {
							continue
						}
						var chain []string
						for cur, ok := fa.X.(*ssa.FieldAddr); ok; cur, ok = cur.X.(*ssa.FieldAddr) {
							_, nm := fieldAddrName(cur)
							chain = append(chain, nm)
						}
						viaSync := false
						for _, nm := range chain {
							if nm == "syncState" {
								viaSync = true
							}
						}
						if !viaSync {
							continue
						}
						n++
						c.Check(rule, fmt.Sprintf("start-block-decision-compares-start-block:%s", fnn), bo.Pos(), len(chain) > 0 && chain[0] == "startBlock",
							fmt.Sprintf("%s decides about moving the start block by comparing the import's height with syncState.%s.Height instead of syncState.startBlock.Height: the database and the in-memory start block are updated under different conditions", fnn, strings.Join(chain[:1], "")))
					}
				}
			}
		}
	}
	c.Floor(rule, "start-block comparisons in the import functions", n, 3)
}

// checkImportAddressIDAgreesWithConstructor (sibling agreement): for every address type, the database key an
// imported public key is stored under (importPublicKey) is shaped by the same steps as the address the
// constructor builds for that type (newManagedAddressWithoutPrivKey) — hash160 / nested-script hash / taproot
// output-key tweak. The cache is keyed by the constructed address; if the database key is shaped differently the
// row is unreachable after a restart although the running manager still finds the address in its cache.
func checkImportAddressIDAgreesWithConstructor(c *Ctx, rule string) {
	p := c.P
	imp := p.Func("waddrmgr", "ScopedKeyManager", "importPublicKey")
	ctor := p.Func("waddrmgr", "", "newManagedAddressWithoutPrivKey")
	if imp == nil || ctor == nil {
		c.Unresolved(rule, "importPublicKey / newManagedAddressWithoutPrivKey")
		return
	}
	// the type-specific shaping steps (the plain hash160 is common to all types and computed outside the switch in one of the two)
	vocab := map[string]bool{"ComputeTaprootKeyNoScript": true, "ComputeTaprootOutputKey": true, "PayToAddrScript": true}
	arms := func(top *ssa.Function) map[string]map[string]bool {
		out := map[string]map[string]bool{}
		// the function and the private parts it was split into
		for _, fn := range p.regionOf(top) {
			for _, b := range fn.Blocks {
				for si, succ := range b.Succs {
					ef := edgeFactOf(b, si)
					if ef == nil || ef.Kind != "true" {
						continue
					}
					bo, ok := ef.V.(*ssa.BinOp)
					if !ok || bo.Op != token.EQL {
						continue
					}
					cst, ok := bo.Y.(*ssa.Const)
					if !ok {
						continue
					}
					nm, ok := cst.Type().(*types.Named)
					if !ok || nm.Obj().Name() != "AddressType" {
						continue
					}
					name := strings.TrimPrefix(valueDesc(cst), "waddrmgr.")
					set := out[name]
					if set == nil {
						set = map[string]bool{}
						out[name] = set
					}
					// the arm: blocks dominated by the case body (for `case A, B:` the body has several predecessors,
					// so take the blocks reachable from it up to the switch's merge: approximated by domination from succ
					// or, when succ is shared, by the body block itself and what it dominates)
					for _, bb := range fn.Blocks {
						if succ.Dominates(bb) {
							for _, ins := range bb.Instrs {
								if call, ok := ins.(*ssa.Call); ok && vocab[calleeShort(&call.Call)] {
									set[calleeShort(&call.Call)] = true
								}
							}
						}
					}
				}
			}
			// the same dispatch spelled as a table of per-type builder functions
			for _, tl := range p.tableLookupsIn(fn) {
				for _, e := range tl.Entries {
					cst, ok := e.Key.(*ssa.Const)
					if !ok {
						continue
					}
					nm, ok := cst.Type().(*types.Named)
					if !ok || nm.Obj().Name() != "AddressType" {
						continue
					}
					name := strings.TrimPrefix(valueDesc(cst), "waddrmgr.")
					if out[name] == nil {
						out[name] = map[string]bool{}
					}
					if g := fnValueOf(e.Val); g != nil {
						for _, f := range Closures(g) {
							for _, ci := range callsOf(f) {
								if vocab[calleeShort(ci.Common())] {
									out[name][calleeShort(ci.Common())] = true
								}
							}
						}
					}
				}
			}
		}
		return out
	}
	ia, ca := arms(imp), arms(ctor)
	n := 0
	for t, want := range ca {
		got, ok := ia[t]
		if !ok {
			continue
		}
		n++
		var w, g []string
		for k := range want {
			w = append(w, k)
		}
		for k := range got {
			g = append(g, k)
		}
		sort.Strings(w)
		sort.Strings(g)
		c.Check(rule, "import-address-id-shaped-like-constructed-address:"+t, imp.Pos(), strings.Join(w, ",") == strings.Join(g, ","),
			fmt.Sprintf("for address type %s importPublicKey shapes the database key with {%s} while the address constructor uses {%s}: the imported address is stored under a key its own address does not map to (found through the cache now, lost after a restart)", t, strings.Join(g, ","), strings.Join(w, ",")))
	}
	c.Floor(rule, "address types handled by both importPublicKey and the constructor", n, 4)
}

// checkNextIndexMirrorIsLoopVariable: the in-memory next index an issuer leaves behind is the variable its
// derivation loop counted with (after the loop it is one past the last derived child, the same value
// putChainedAddress persisted as index+1) — not a field of the last derived entry, which is the last USED index:
// with that, memory ends one below the database and the next request re-issues an address that was just handed out.
func checkNextIndexMirrorIsLoopVariable(c *Ctx, rule string) {
	p := c.P
	n := 0
	for _, fnn := range []string{"nextAddresses", "extendAddresses"} {
		top := p.Func("waddrmgr", "ScopedKeyManager", fnn)
		if top == nil {
			c.Unresolved(rule, "ScopedKeyManager."+fnn)
			continue
		}
		// the child index handed to the second (index) derivation
		var deriveAtom string
		derives := callsNamed(top, "DeriveNonStandard")
		if len(derives) >= 2 {
			l := p.linearize(derives[len(derives)-1].Call.Args[len(derives[len(derives)-1].Call.Args)-1], 0)
			for a := range l.Coef {
				deriveAtom = a
			}
		}
		if deriveAtom == "" {
			c.Unresolved(rule, "child-index derivation in "+fnn)
			continue
		}
		for _, fn := range p.regionOf(top) {
			for _, b := range fn.Blocks {
				for _, ins := range b.Instrs {
					st, ok := ins.(*ssa.Store)
					if !ok {
						continue
					}
					fa, ok := st.Addr.(*ssa.FieldAddr)
					if !ok {
						continue
					}
					tn, f := fieldAddrName(fa)
					if tn != "accountInfo" || (f != "nextExternalIndex" && f != "nextInternalIndex") {
						continue
					}
					n++
					l := p.linearize(st.Val, 0)
					same := len(l.Coef) == 1 && l.Coef[deriveAtom] == 1 && l.Konst == 0
					c.Check(rule, fmt.Sprintf("next-index-mirror-is-issuing-loop-variable:%s.%s", fnn, f), st.Pos(), same,
						fmt.Sprintf("%s sets the in-memory %s to [%s] instead of the variable its derivation loop counted with [%s]: memory is left below the persisted next index and the next request re-issues the last address", fnn, f, l.String(), deriveAtom))
				}
			}
		}
	}
	c.Floor(rule, "next-index mirror stores in the issuers", n, 4)
}

// checkMigrationRefusalBeforeWrites: a migration that inspects the existing data and may REFUSE to run (an error
// coming out of a read-only ForEach over the old rows) does so before it has written anything — in particular
// before it records the new version. A refusal after the version write reports failure with the version already
// bumped: whoever commits that transaction has a database stamped "upgraded" that was not.
func checkMigrationRefusalBeforeWrites(c *Ctx, rule string) {
	p := c.P
	ed := newErrDisc(p)
	n := 0
	for _, fn := range p.FuncsIn("waddrmgr") {
		if fn.Parent() != nil || !strings.HasPrefix(fn.Name(), "upgradeToVersion") {
			continue
		}
		for _, b := range fn.Blocks {
			for _, ins := range b.Instrs {
				r, ok := ins.(*ssa.Return)
				if !ok || len(r.Results) == 0 {
					continue
				}
				ev := effectiveResult(r, len(r.Results)-1)
				fromScan := false
				for _, o := range errArgSlicer(p).Origins(ev) {
					if call, ok := o.(*ssa.Call); ok && calleeShort(&call.Call) == "ForEach" {
						fromScan = true
					}
				}
				if !fromScan {
					continue
				}
				n++
				q := &PathQuery{Fn: fn, Barrier: func(i ssa.Instruction) bool { return i == ssa.Instruction(r) },
					Target: func(i ssa.Instruction, _ *ssa.BasicBlock) bool {
						call, ok := i.(*ssa.Call)
						return ok && ed.isCarrierSite(call)
					}}
				// a write that can be followed by this return
				bad := false
				for _, h := range q.From(nil) {
					q2 := &PathQuery{Fn: fn, Target: func(i ssa.Instruction, _ *ssa.BasicBlock) bool { return i == ssa.Instruction(r) }}
					if len(q2.From(h.Ins)) > 0 {
						bad = true
					}
				}
				c.Check(rule, "migration-refusal-precedes-writes:"+fn.Name(), r.Pos(), !bad,
					fn.Name()+" can refuse the upgrade (error from scanning the existing rows) after it has already written to the database (e.g. recorded the new version): the failure is reported with the version already bumped")
			}
		}
	}
	c.Floor(rule, "data-dependent refusals in waddrmgr migrations", n, 1)
}

// checkPendingQueueOnlyDrainedByUnlock: addresses issued or derived while the manager is locked wait in
// ScopedKeyManager.deriveOnUnlock for their private keys. The queue may only grow (append) — entries leave it in
// Manager.Unlock, after their key has been derived. Anything else that resets or shortens it (e.g. a "hygiene" wipe in
// lock(), which Unlock's own failure paths run) silently drops the pending derivations: after the next successful
// unlock those addresses have no private key although the wallet is unlocked.
func checkPendingQueueOnlyDrainedByUnlock(c *Ctx, rule string) {
	p := c.P
	ul := p.Func("waddrmgr", "Manager", "Unlock")
	if ul == nil {
		c.Unresolved(rule, "Manager.Unlock")
		return
	}
	n := 0
	for _, fn := range p.FuncsIn("waddrmgr") {
		for _, b := range fn.Blocks {
			for _, ins := range b.Instrs {
				st, ok := ins.(*ssa.Store)
				if !ok {
					continue
				}
				fa, ok := st.Addr.(*ssa.FieldAddr)
				if !ok {
					continue
				}
				if tn, f := fieldAddrName(fa); tn != "ScopedKeyManager" || f != "deriveOnUnlock" {
					continue
				}
				n++
				grows := false
				for _, o := range (&Slicer{P: p}).Origins(st.Val) {
					if call, ok := o.(*ssa.Call); ok && calleeShort(&call.Call) == "append" {
						grows = true
					}
				}
				inUnlock := p.inRegion(ul, outermost(fn))
				c.Check(rule, "pending-derivation-queue-only-drained-by-Unlock:"+fnName(fn), st.Pos(), grows || inUnlock,
					fnName(fn)+" resets or shortens ScopedKeyManager.deriveOnUnlock outside Manager.Unlock: addresses issued while locked lose their pending private-key derivation (a failed unlock attempt runs lock(), so one wrong passphrase is enough)")
			}
		}
	}
	c.Floor(rule, "stores to the derive-on-unlock queue", n, 4)
}

// checkClearTextAccessorsReturnCopies: the address objects cache decrypted material (private key bytes, script bytes)
// in fields that lock() zeroes IN PLACE. A function that returns such a field itself hands the caller an alias of the
// cache: the caller's copy turns to zeroes at the next lock, and a caller that modifies or wipes what it received
// corrupts what every later call returns ("imported scripts are returned unchanged", keys re-derive identically).
func checkClearTextAccessorsReturnCopies(c *Ctx, rule string) {
	p := c.P
	holders := map[string]bool{}
	for _, h := range inferHolders(p) {
		holders[h] = true
	}
	n := 0
	for _, fn := range p.FuncsIn("waddrmgr") {
		if fn.Signature.Results().Len() == 0 {
			continue
		}
		for _, b := range fn.Blocks {
			r, ok := b.Instrs[len(b.Instrs)-1].(*ssa.Return)
			if !ok {
				continue
			}
			for i := range r.Results {
				sl, ok := r.Results[i].Type().Underlying().(*types.Slice)
				if !ok {
					continue
				}
				if bt, ok := sl.Elem().Underlying().(*types.Basic); !ok || bt.Kind() != types.Uint8 {
					continue
				}
				v := stripConv(effectiveResult(r, i))
				tn, f, _, okf := fieldOf(v)
				if !okf || !holders[tn+"."+f] {
					continue
				}
				n++
				c.Check(rule, "clear-text-cache-not-returned-itself:"+fnName(fn)+"."+f, r.Pos(), false,
					fnName(fn)+" returns the cached clear-text buffer "+tn+"."+f+" itself instead of a copy: lock() zeroes it under the caller, and a caller writing to it changes what later calls return")
			}
		}
	}
	// positive control: the accessors that do copy
	nCopy := 0
	for _, fn := range p.FuncsIn("waddrmgr") {
		for _, call := range callsNamed(fn, "copy") {
			if len(call.Call.Args) == 2 {
				if tn, f, _, ok := fieldOf(stripConv(call.Call.Args[1])); ok && holders[tn+"."+f] {
					nCopy++
				}
			}
		}
	}
	c.Floor(rule, "accessors copying a clear-text cache field out", nCopy, 2)
	_ = n
}

// checkAddrTypeFollowsBranch: an account can use different address formats on its two branches (BIP49: nested P2WPKH
// external, native P2WPKH change). Whoever asks for "the account's address type" must say which branch it means with a
// value that depends on the branch at hand — a parameter, or the comparison of the path's branch with the internal
// branch constant. A constant answer (always external) builds the wrong script for every change address of such a
// scope: the address is watched / stored under a script nobody pays to, and recovery misses those payments.
func checkAddrTypeFollowsBranch(c *Ctx, rule string) {
	p := c.P
	n := 0
	for _, fn := range p.FuncsIn("waddrmgr") {
		for _, call := range callsNamed(fn, "accountAddrType") {
			n++
			arg := call.Call.Args[len(call.Call.Args)-1]
			ok := false
			why := "a constant"
			if _, isConst := stripConv(arg).(*ssa.Const); !isConst {
				why = "a value that does not depend on the branch"
				for _, o := range (&Slicer{P: p, ThroughBinOp: true, ThroughFieldsOfAllocs: true}).Origins(arg) {
					switch x := o.(type) {
					case *ssa.Parameter:
						if isBoolType(x.Type()) {
							ok = true
						}
					default:
						if _, f, _, okf := fieldOf(o); okf && f == "Branch" {
							ok = true
						}
					}
				}
			}
			c.Check(rule, "address-type-asked-for-the-branch-at-hand:"+fnName(fn), call.Pos(), ok,
				fnName(fn)+" asks for the account's address type with "+why+" as the branch flag: for scopes whose change addresses use another format (BIP49) the managed address is built with the wrong script, so those addresses are never matched against the chain")
		}
	}
	c.Floor(rule, "address-type lookups", n, 3)
}

// constCaseArms: for a function that switches on constants of the named type: constant name -> names of the functions
// called in that arm (blocks dominated by the arm's body; `case A, B:` shares one body).
func constCaseArms(fn *ssa.Function, typeName string) map[string]map[string]bool {
	out := map[string]map[string]bool{}
	p := theProg
	isKind := func(v ssa.Value) (string, bool) {
		cst, ok := v.(*ssa.Const)
		if !ok {
			return "", false
		}
		nm, ok := cst.Type().(*types.Named)
		if !ok || nm.Obj().Name() != typeName {
			return "", false
		}
		return valueDesc(cst), true
	}
	// the function, its closures and the private parts it was split into
	for _, f := range p.regionOf(fn) {
		for _, b := range f.Blocks {
			for si, succ := range b.Succs {
				ef := edgeFactOf(b, si)
				if ef == nil || ef.Kind != "true" {
					continue
				}
				bo, ok := ef.V.(*ssa.BinOp)
				if !ok || bo.Op != token.EQL {
					continue
				}
				name, ok := isKind(bo.Y)
				if !ok {
					continue
				}
				if out[name] == nil {
					out[name] = map[string]bool{}
				}
				for _, bb := range f.Blocks {
					if succ.Dominates(bb) {
						for _, ins := range bb.Instrs {
							if call, ok := ins.(*ssa.Call); ok {
								out[name][calleeShort(&call.Call)] = true
							}
						}
					}
				}
			}
		}
		// the same dispatch spelled as a literal table keyed by the kind: the arm is the entry's function
		for _, tl := range p.tableLookupsIn(f) {
			for _, e := range tl.Entries {
				name, ok := isKind(e.Key)
				if !ok {
					continue
				}
				if out[name] == nil {
					out[name] = map[string]bool{}
				}
				if g := fnValueOf(e.Val); g != nil {
					out[name][g.Name()] = true
					for _, h := range Closures(g) {
						for _, ci := range callsOf(h) {
							out[name][calleeShort(ci.Common())] = true
						}
					}
				}
			}
		}
	}
	return out
}

// checkStripperCoversRowKinds (sibling agreement): the address-row reader dispatches every stored row kind to a
// deserializer; deletePrivateKeys (conversion to watching-only) dispatches on the same kind to strip the secret slot.
// Every row kind that the reader decodes with a deserializer the stripper uses for some kind has that layout — and that
// secret slot — too, so the stripper must have an arm for it. (Taproot script rows share the witness-script layout; with
// no arm of their own a secret tapscript stayed in the file of a watching-only wallet.)
func checkStripperCoversRowKinds(c *Ctx, rule string) {
	p := c.P
	reader := p.Func("waddrmgr", "", "fetchAddressByHash")
	strip := p.Func("waddrmgr", "", "deletePrivateKeys")
	if reader == nil || strip == nil {
		c.Unresolved(rule, "waddrmgr.fetchAddressByHash / deletePrivateKeys")
		return
	}
	ra, sa := constCaseArms(reader, "addressType"), constCaseArms(strip, "addressType")
	c.Floor(rule, "address row kinds decoded by the reader", len(ra), 4)
	used := map[string]bool{}
	for _, calls := range sa {
		for n := range calls {
			if strings.HasPrefix(n, "deserialize") {
				used[n] = true
			}
		}
	}
	c.Floor(rule, "row deserializers used by deletePrivateKeys", len(used), 3)
	var kinds []string
	for k := range ra {
		kinds = append(kinds, k)
	}
	sort.Strings(kinds)
	for _, k := range kinds {
		needs := ""
		for n := range ra[k] {
			if used[n] {
				needs = n
			}
		}
		if needs == "" {
			continue
		}
		_, has := sa[k]
		c.Check(rule, "secret-stripped-for-row-kind:"+strings.TrimPrefix(k, "waddrmgr."), strip.Pos(), has,
			"address rows of kind "+k+" are decoded with "+needs+" (a layout whose secret slot deletePrivateKeys strips for another kind) but deletePrivateKeys has no case for them: their secret stays in the database after conversion to watching-only")
	}
}

// checkAccountCreationRefusesExistingNumber: an account row holds the account's name and its two next indices. A
// function that CREATES an account (it derives/accepts the account key and writes a fresh row with zero indices —
// recognised by role: it writes an account row and is not handed an existing row's fields) must not be able to write
// that row over an existing account: every path to the write has seen the account number absent (the not-found edge
// of an account-row lookup by number), or the number is fresh by construction (last account + 1 in the caller).
func checkAccountCreationRefusesExistingNumber(c *Ctx, rule string) {
	p := c.P
	n := 0
	for _, fn := range p.FuncsIn("waddrmgr") {
		if fn.Parent() != nil || fn.Signature.Recv() == nil {
			continue
		}
		var writes []*ssa.Call
		for _, w := range []string{"putDefaultAccountInfo", "putWatchOnlyAccountInfo"} {
			writes = append(writes, callsNamed(fn, w)...)
		}
		if len(writes) == 0 {
			continue
		}
		// creators only: the row's index arguments are the constants 0 (a rewrite passes an existing row's fields)
		for _, w := range writes {
			zeros := 0
			for _, a := range w.Call.Args {
				if k, ok := constInt(a); ok && k == 0 && isBasic(a.Type()) {
					zeros++
				}
			}
			if zeros < 2 {
				continue
			}
			n++
			unguarded := reachableAvoiding(fn, nil, w, func(from *ssa.BasicBlock, si int) bool {
				f := edgeFactOf(from, si)
				return f != nil && f.Kind == "nonnil" && isResultOfCall(f.V, "fetchAccountInfo", -1)
			})
			c.Check(rule, "account-creation-refuses-existing-number:"+fn.Name(), w.Pos(), !unguarded,
				fnName(fn)+" writes a fresh account row (indices 0/0) without having found the account number unused: for a number that exists under another name (default account, NewAccount) the row is overwritten — the running manager keeps the old account cached, a restarted one issues its addresses again")
		}
	}
	c.Floor(rule, "account-creating row writes", n, 2)
}

// checkConversionSuccessMeansStripped: ConvertToWatchingOnly reports success (nil) only when the database is marked
// watching-only by this call (putWatchingOnly passed) or is found marked already (the database's own flag, read in this
// transaction). The in-memory flag is not such evidence: it is set before the caller's transaction commits, so after a
// rolled-back conversion it is ahead of the database, and a shortcut on it makes the retry a silent no-op.
func checkConversionSuccessMeansStripped(c *Ctx, rule string) {
	p := c.P
	fn := p.Func("waddrmgr", "Manager", "ConvertToWatchingOnly")
	if fn == nil {
		c.Unresolved(rule, "Manager.ConvertToWatchingOnly")
		return
	}
	alreadyInDB := func(from *ssa.BasicBlock, si int) bool {
		f := edgeFactOf(from, si)
		return f != nil && f.Kind == "true" && isResultOfCall(f.V, "fetchWatchingOnly", 0)
	}
	bad := p.mustPassToSuccess(fn, nil, isCallNamed("putWatchingOnly"), alreadyInDB)
	detail := ""
	if bad != nil {
		detail = "ConvertToWatchingOnly can return success at " + p.Pos(bad.Pos()) + " without having written the watching-only flag and without having found it set in the database (e.g. on the in-memory flag alone): after a rolled-back conversion a retry reports success and leaves every private key in the file"
	}
	c.Check(rule, "conversion-success-means-database-converted", fn.Pos(), bad == nil, detail)
}

// checkImportPathsAgreeOnSchemaField (sibling agreement): an imported key has no branch; by convention the scoped
// manager gives it the scope's EXTERNAL address type — when it shapes the database key (importPublicKey), when it builds
// the object it returns and caches (toImported*ManagedAddress) and when it rebuilds the object from its row
// (importedAddressRowToManaged). All methods that read one of the two schema fields directly (the branch selector reads
// both and is not one of them) read the same one; a single deviation makes the cached address differ from the one a
// restart rebuilds (BIP49: native vs nested segwit).
func checkImportPathsAgreeOnSchemaField(c *Ctx, rule string) {
	p := c.P
	reads := map[*ssa.Function]map[string]token.Pos{}
	for _, fn := range p.FuncsIn("waddrmgr") {
		top := outermost(fn)
		if top.Signature.Recv() == nil || recvName(top) != "ScopedKeyManager" {
			continue
		}
		for _, b := range fn.Blocks {
			for _, ins := range b.Instrs {
				fa, ok := ins.(*ssa.FieldAddr)
				if !ok {
					continue
				}
				tn, f := fieldAddrName(fa)
				if tn != "ScopeAddrSchema" || (f != "ExternalAddrType" && f != "InternalAddrType") {
					continue
				}
				// a read of the manager's own schema (s.addrSchema.X), not of an account's override
				if inner, ok := fa.X.(*ssa.FieldAddr); ok {
					if btn, bf := fieldAddrName(inner); btn != "ScopedKeyManager" || bf != "addrSchema" {
						continue
					}
				} else {
					continue
				}
				if reads[top] == nil {
					reads[top] = map[string]token.Pos{}
				}
				reads[top][f] = fa.Pos()
			}
		}
	}
	count := map[string]int{}
	for _, fs := range reads {
		if len(fs) == 1 {
			for f := range fs {
				count[f]++
			}
		}
	}
	major := "ExternalAddrType"
	if count["InternalAddrType"] > count["ExternalAddrType"] {
		major = "InternalAddrType"
	}
	n := 0
	var fns []*ssa.Function
	for fn := range reads {
		fns = append(fns, fn)
	}
	sort.Slice(fns, func(i, j int) bool { return fns[i].Pos() < fns[j].Pos() })
	for _, fn := range fns {
		fs := reads[fn]
		if len(fs) != 1 {
			continue
		}
		n++
		for f, pos := range fs {
			c.Check(rule, "branchless-address-type-read-agrees:"+fn.Name(), pos, f == major,
				fnName(fn)+" takes the address type of a key that has no branch (an imported key) from the scope schema's "+f+" while its siblings use "+major+": for a scope whose two types differ the object it builds is not the address the database row (and a restart) stands for")
		}
	}
	c.Floor(rule, "direct single-field reads of the scope's address schema", n, 4)
}

// checkAddressLookupsNormalisePayToPubKey: the address rows (and the address cache) are keyed by the address's pubkey
// hash / script hash. A pay-to-pubkey output hands the wallet a *btcutil.AddressPubKey, whose ScriptAddress() is the
// serialized key itself; ScopedKeyManager.Address therefore swaps such an address for its AddressPubKeyHash() before
// it computes the key. Every other lookup that computes the row key from a caller-supplied address has to do the same,
// or it disagrees with Address about which addresses the wallet knows: the wallet's transaction intake asks Address
// first (found), then AddrAccount and MarkUsed with the same value — a failure there aborts the recording of the
// transaction (and the recovery batch it is part of, at every retry), a silent miss leaves the address unmarked.
// Rule: in waddrmgr, wherever ScriptAddress() is invoked on a value that can be a btcutil.Address parameter of an
// exported function (followed through unexported helpers to their call sites), the value can also be the result of
// AddressPubKeyHash() — i.e. the normalisation is merged in.
func checkAddressLookupsNormalisePayToPubKey(c *Ctx, rule string) {
	p := c.P
	type origin struct {
		raw        []*ssa.Function // exported functions whose own parameter reaches the key computation
		normalised bool
	}
	var resolve func(v ssa.Value, depth int, o *origin)
	resolve = func(v ssa.Value, depth int, o *origin) {
		// (the normalisation may live in a private helper of the package: what it can return is looked at)
		sl := &Slicer{P: p, ThroughReturns: func(g *ssa.Function) bool {
			return fnPkgPath(g) == rootMod+"/waddrmgr" && g.Object() != nil && !g.Object().Exported()
		}}
		for _, t := range sl.Origins(v) {
			switch x := t.(type) {
			case *ssa.Call:
				if x.Call.IsInvoke() && x.Call.Method.Name() == "AddressPubKeyHash" || calleeShort(&x.Call) == "AddressPubKeyHash" {
					o.normalised = true
				}
			case *ssa.Parameter:
				f := x.Parent()
				if f.Object() != nil && f.Object().Exported() && f.Parent() == nil {
					o.raw = append(o.raw, f)
					continue
				}
				if depth >= 3 {
					continue
				}
				idx := paramIndex(f, x)
				for _, cs := range p.realCallers(f) {
					args := cs.Common().Args
					if idx >= 0 && idx < len(args) {
						resolve(args[idx], depth+1, o)
					}
				}
			}
		}
	}
	n := 0
	for _, fn := range p.FuncsIn("waddrmgr") {
		for _, ci := range callsOf(fn) {
			call, ok := ci.(*ssa.Call)
			if !ok || !call.Call.IsInvoke() || call.Call.Method.Name() != "ScriptAddress" {
				continue
			}
			if !strings.HasSuffix(call.Call.Value.Type().String(), "btcutil.Address") {
				continue
			}
			var o origin
			resolve(call.Call.Value, 0, &o)
			if len(o.raw) == 0 {
				continue // the wallet's own managed address, not a caller's
			}
			n++
			c.Check(rule, "address-key-normalises-pay-to-pubkey:"+fnName(o.raw[0])+">"+fn.Name(), call.Pos(), o.normalised,
				fnName(o.raw[0])+" computes the row key of a caller-supplied address (in "+fn.Name()+") without first replacing a pay-to-pubkey address by its pubkey-hash form as ScopedKeyManager.Address does: for an output paying a wallet key directly, Address finds the address but this lookup does not — the transaction is not recorded (AddrAccount fails) or the address stays unmarked (MarkUsed)")
		}
	}
	c.Floor(rule, "row keys computed from caller-supplied addresses", n, 3)
}

// checkScriptSecrecyClassIsCallers: whether an imported script is sealed under the script crypto key (secret: locked
// and watching-only managers refuse it, the conversion to watching-only deletes it, Script() is lock-gated) or under the
// public key is the CALLER's decision. The exported import functions hand that decision to the worker unchanged: the
// secrecy argument at each call of the worker is the exported function's own parameter or a constant — never a value
// that the function may have downgraded on some path (a locked manager is not a watching-only one).
func checkScriptSecrecyClassIsCallers(c *Ctx, rule string) {
	p := c.P
	n := 0
	for _, fn := range p.FuncsIn("waddrmgr") {
		for _, ci := range callsOf(fn) {
			call, ok := ci.(*ssa.Call)
			if !ok {
				continue
			}
			g := call.Call.StaticCallee()
			if g == nil || fnPkgPath(g) != fnPkgPath(fn) || g.Object() == nil || g.Object().Exported() {
				continue
			}
			if top := outermost(fn); top.Object() == nil || !top.Object().Exported() {
				continue
			}
			arg := p.argNamed(call, "isSecretScript", -1)
			if arg == nil {
				continue
			}
			n++
			a := stripConv(arg)
			_, isK := a.(*ssa.Const)
			prm, isP := a.(*ssa.Parameter)
			ok = isK || (isP && prm.Parent() == outermost(fn))
			c.Check(rule, "script-secrecy-class-is-callers:"+fnName(outermost(fn)), call.Pos(), ok,
				fnName(outermost(fn))+" does not hand the caller's secrecy class of the script to "+g.Name()+" unchanged: a script the caller declared secret can be sealed under the public crypto key and flagged non-secret — it survives the conversion to watching-only and is returned without the lock check")
		}
	}
	c.Floor(rule, "calls handing a script's secrecy class to the import worker", n, 2)
}

// checkCompressionFlagIsTheWifs: an imported private key is stored under the hash of the serialisation its WIF asks for
// (wif.SerializePubKey()). Every managed-address object built for it in the same operation must be told the same choice:
// wherever a function that is handed a *btcutil.WIF passes a `compressed` argument on, that argument is read from the
// WIF's CompressPubKey. With a constant the object (returned and cached) is the address of the OTHER serialisation: the
// running manager answers for an address a restarted one has never heard of.
func checkCompressionFlagIsTheWifs(c *Ctx, rule string) {
	p := c.P
	n := 0
	for _, fn := range p.FuncsIn("waddrmgr") {
		top := outermost(fn)
		hasWif := false
		for _, prm := range top.Params {
			if strings.HasSuffix(prm.Type().String(), "btcutil.WIF") {
				hasWif = true
			}
		}
		if !hasWif {
			continue
		}
		for _, ci := range callsOf(fn) {
			call, ok := ci.(*ssa.Call)
			if !ok {
				continue
			}
			g := call.Call.StaticCallee()
			if g == nil || len(g.Params) != len(call.Call.Args) {
				continue
			}
			for i, prm := range g.Params {
				if prm.Name() != "compressed" || !isBoolType(prm.Type()) {
					continue
				}
				n++
				fromWif := false
				for _, o := range (&Slicer{P: p, ThroughDeref: true}).Origins(call.Call.Args[i]) {
					if _, f, _, ok := fieldOf(o); ok && f == "CompressPubKey" {
						fromWif = true
					}
				}
				c.Check(rule, "compression-flag-is-the-wifs:"+fnName(top)+">"+g.Name(), call.Pos(), fromWif,
					fnName(top)+" builds the managed address of an imported key with a compression choice that is not the WIF's own (CompressPubKey): the row is stored under the serialisation the WIF asks for, the object handed out and cached is the address of the other one")
			}
		}
	}
	c.Floor(rule, "compression choices made while importing a WIF", n, 2)
}

// checkIssuingTransactionKeepsAccountCache: an address-issuing call advances the account's in-memory next index in a
// commit callback, on the account object that was cached when the addresses were derived. Dropping that object from the
// cache before the transaction has committed orphans it: the callback updates an object nobody reads, the reloaded one
// already shows the uncommitted count, and a failed commit leaves memory one ahead of the database (a gap) — or a reader
// repopulates the cache from a pre-commit snapshot and the next call re-issues the address. Rule: no function that
// issues addresses inside a database transaction invalidates the account cache.
func checkIssuingTransactionKeepsAccountCache(c *Ctx, rule string) {
	p := c.P
	issues := func(f *ssa.Function) bool {
		for _, g := range Closures(f) {
			for _, ci := range callsOf(g) {
				switch calleeShort(ci.Common()) {
				case "NextExternalAddresses", "NextInternalAddresses", "NewChangeAddress", "newAddress", "newChangeAddress":
					return true
				}
			}
		}
		return false
	}
	n := 0
	for _, fn := range p.FuncsIn("wallet") {
		if fn.Parent() != nil || !issues(fn) {
			continue
		}
		n++
		var bad ssa.Instruction
		for _, g := range Closures(fn) {
			for _, ci := range callsOf(g) {
				if calleeShort(ci.Common()) == "InvalidateAccountCache" {
					// the dry-run import drops the account it created, after its transaction was rolled back: allowed
					// only where the function's transaction is rolled back by construction
					if !isDryRunOnly(p, g) {
						bad = ci
					}
				}
			}
		}
		pos := fn.Pos()
		if bad != nil {
			pos = bad.Pos()
		}
		c.Check(rule, "issuing-transaction-keeps-account-cache:"+fnName(fn), pos, bad == nil,
			fnName(fn)+" invalidates the account cache in the transaction that issues an address: the commit callback then advances an orphaned account object, memory and database disagree after a failed commit (an index is skipped) or a concurrent reader re-caches the pre-commit count (an address is issued twice)")
	}
	c.Floor(rule, "address-issuing functions of the wallet", n, 4)
}

// isDryRunOnly: g runs only inside a database transaction that can only end in a rollback: g is a transaction closure
// without a return that reports success, or a private part called only from such closures (or from parts of them).
func isDryRunOnly(p *Program, g *ssa.Function) bool {
	var rec func(g *ssa.Function, depth int) bool
	rec = func(g *ssa.Function, depth int) bool {
		if depth > 3 {
			return false
		}
		if g.Parent() != nil {
			res := g.Signature.Results()
			if res.Len() != 1 || !isErrorType(res.At(0).Type()) {
				return false
			}
			q := &PathQuery{Fn: g, Target: p.nonErrorReturn()}
			return len(q.From(nil)) == 0
		}
		if g.Object() == nil || g.Object().Exported() {
			return false
		}
		sites := p.realCallers(g)
		for _, cs := range sites {
			if !rec(cs.Parent(), depth+1) {
				return false
			}
		}
		return len(sites) > 0
	}
	return rec(g, 0)
}

// checkSameNamedParametersNotCrossed: a persistence helper that hands its own parameters on to a callee whose parameters
// carry the same names hands each to its namesake. Two same-typed neighbours passed crosswise (nextInternalIndex into
// nextExternalIndex's place and the other way round) compile, round-trip and are invisible while both hold the same
// value: the row written for an account then carries the branches' next indices exchanged, and a restarted manager
// re-issues addresses on one branch and skips indices on the other.
func checkSameNamedParametersNotCrossed(c *Ctx, rule, pkg string) {
	p := c.P
	n := 0
	for _, fn := range p.FuncsIn(pkg) {
		for _, ci := range callsOf(fn) {
			call, ok := ci.(*ssa.Call)
			if !ok {
				continue
			}
			g := call.Call.StaticCallee()
			if g == nil || len(g.Params) != len(call.Call.Args) || fnPkgPath(g) != fnPkgPath(fn) {
				continue
			}
			// position -> name of the caller's parameter passed there
			passed := map[string]string{} // callee param name -> caller param name
			for i, a := range call.Call.Args {
				if prm, ok := stripConv(a).(*ssa.Parameter); ok && prm.Parent() == fn {
					passed[g.Params[i].Name()] = prm.Name()
				}
			}
			if len(passed) < 2 {
				continue
			}
			n++
			for calleeName, callerName := range passed {
				if calleeName == callerName {
					continue
				}
				// crossed: X goes where Y is expected and Y goes where X is expected
				if back, ok := passed[callerName]; ok && back == calleeName && calleeName < callerName {
					c.Check(rule, "same-named-parameters-not-crossed:"+fn.Name()+"->"+g.Name()+"/"+calleeName+"~"+callerName, call.Pos(), false,
						fn.Name()+" passes its parameter "+callerName+" as "+g.Name()+"'s "+calleeName+" and its "+calleeName+" as "+callerName+": the two values are stored in each other's place (for the next-index pair: after a restart one branch re-issues addresses already handed out and the other skips indices)")
				}
			}
		}
	}
	c.Floor(rule, "calls handing two or more own parameters to a same-package callee", n, 20)
}

// checkPubPrivSlotsAreTwins: a row that stores a key pair — the cointype keys of a scope, the keys of an account — stores
// ONE key: the private slot is sealed from the text of an extended key, the public slot from the text of that key's
// Neuter(). With the private slot sealed from another key of the same type that happens to be at hand (the account key in
// the cointype slot) every later account is derived from the wrong parent: self-consistent, so nothing in the wallet
// notices, but a wallet restored from the seed issues other addresses. At every call that hands a pair of freshly sealed
// blobs to a writer with a ...Pub...Enc... / ...Priv...Enc... parameter pair, the plaintext of the public one is
// String() of Neuter() of the key whose String() is the plaintext of the private one.
func checkPubPrivSlotsAreTwins(c *Ctx, rule string) {
	p := c.P
	// the extended key whose String() a sealed blob was made from
	sealedFrom := func(v ssa.Value) ssa.Value {
		for _, o := range (&Slicer{P: p, KeepExtract: true}).Origins(v) {
			ex, ok := o.(*ssa.Extract)
			if !ok || ex.Index != 0 {
				continue
			}
			enc, ok := ex.Tuple.(*ssa.Call)
			if !ok || calleeShort(&enc.Call) != "Encrypt" || len(enc.Call.Args) == 0 {
				continue
			}
			for _, po := range (&Slicer{P: p}).Origins(enc.Call.Args[len(enc.Call.Args)-1]) {
				if sc, ok := po.(*ssa.Call); ok && calleeShort(&sc.Call) == "String" && len(sc.Call.Args) > 0 {
					return stripConv(sc.Call.Args[0])
				}
			}
		}
		return nil
	}
	isPub := func(n string) bool {
		l := strings.ToLower(n)
		return strings.Contains(l, "pub") && strings.Contains(l, "enc")
	}
	isPriv := func(n string) bool {
		l := strings.ToLower(n)
		return strings.Contains(l, "priv") && strings.Contains(l, "enc")
	}
	n := 0
	for _, fn := range p.FuncsIn("waddrmgr") {
		for _, ci := range callsOf(fn) {
			call, ok := ci.(*ssa.Call)
			if !ok {
				continue
			}
			g := call.Call.StaticCallee()
			if g == nil || fnPkgPath(g) != fnPkgPath(fn) || len(g.Params) != len(call.Call.Args) {
				continue
			}
			var pubArg, privArg ssa.Value
			for i, prm := range g.Params {
				if isPub(prm.Name()) {
					pubArg = call.Call.Args[i]
				}
				if isPriv(prm.Name()) {
					privArg = call.Call.Args[i]
				}
			}
			if pubArg == nil || privArg == nil {
				continue
			}
			pubKey, privKey := sealedFrom(pubArg), sealedFrom(privArg)
			if pubKey == nil || privKey == nil {
				continue // blobs read from a row, or no private half: nothing sealed here
			}
			n++
			twin := false
			for _, o := range (&Slicer{P: p, KeepExtract: true}).Origins(pubKey) {
				if ex, ok := o.(*ssa.Extract); ok {
					if nc, ok := ex.Tuple.(*ssa.Call); ok && calleeShort(&nc.Call) == "Neuter" && len(nc.Call.Args) > 0 && stripConv(nc.Call.Args[0]) == privKey {
						twin = true
					}
				}
			}
			c.Check(rule, "pub-priv-slots-are-twins:"+fn.Name()+"->"+g.Name(), call.Pos(), twin,
				fn.Name()+" hands "+g.Name()+" a private blob and a public blob that were not sealed from one key and its Neuter(): the row's private half belongs to another key than its public half — keys derived from it later are not the seed's children for the path the wallet reports")
		}
	}
	c.Floor(rule, "freshly sealed key pairs handed to a row writer", n, 3)
}

// checkScopeNamespaceCreatedExclusively: registering a key scope creates its namespace and its default account row with
// both next indices at zero. That must fail for a scope that exists — the bucket creation refusing an existing bucket is
// what stops it: with create-if-missing an already used scope is silently reset (the database's next indices rewound,
// the running scoped manager replaced by one with empty caches) and the next requests hand out addresses a second time.
func checkScopeNamespaceCreatedExclusively(c *Ctx, rule string) {
	p := c.P
	n := 0
	for _, fn := range p.FuncsIn("waddrmgr") {
		for _, ci := range callsOf(fn) {
			call, ok := ci.(*ssa.Call)
			if !ok || !call.Call.IsInvoke() || len(call.Call.Args) != 1 {
				continue
			}
			m := call.Call.Method.Name()
			if m != "CreateBucket" && m != "CreateBucketIfNotExists" {
				continue
			}
			// keyed by the scope: the key derives from scopeToBytes(...)
			fromScope := false
			for _, o := range (&Slicer{P: p, ThroughDeref: true}).Origins(call.Call.Args[0]) {
				if oc, ok := o.(*ssa.Call); ok && calleeShort(&oc.Call) == "scopeToBytes" {
					fromScope = true
				}
				if al, ok := o.(*ssa.Alloc); ok {
					for _, st := range storesTo(al) {
						if oc, ok := stripConv(st.Val).(*ssa.Call); ok && calleeShort(&oc.Call) == "scopeToBytes" {
							fromScope = true
						}
					}
				}
			}
			if !fromScope {
				continue
			}
			n++
			c.Check(rule, "scope-namespace-created-exclusively:"+fn.Name(), call.Pos(), m == "CreateBucket",
				fn.Name()+" creates a key scope's namespace with "+m+": registering a scope that already exists no longer fails, its default account row is rewritten with both next indices at zero and the running scoped manager is replaced — the addresses issued so far are issued again")
		}
	}
	c.Floor(rule, "creations of a key scope's namespace bucket", n, 1)
}

// ---------- wave 13 ----------

// checkEncryptedKeyOnlyClearedByConversion: the wipe that precedes an eviction (MarkUsed, InvalidateAccountCache) and the
// wipe of Lock() clear CLEAR-TEXT key material; the encrypted private key of an address object is what the next unlock
// decrypts again, and only the conversion to watching-only drops it. A store of nil into an address's privKeyEncrypted,
// or a zeroing of it, anywhere else leaves an object (the one the caller was handed, the account's last address) that
// answers watching-only for a key the wallet owns.
func checkEncryptedKeyOnlyClearedByConversion(c *Ctx, rule string) {
	p := c.P
	conv := p.Func("waddrmgr", "Manager", "ConvertToWatchingOnly")
	if conv == nil {
		c.Unresolved(rule, "Manager.ConvertToWatchingOnly")
		return
	}
	allowed := map[*ssa.Function]bool{conv: true}
	for g := range p.reachSet(conv) {
		allowed[g] = true
	}
	n := 0
	for _, fn := range p.FuncsIn("waddrmgr") {
		for _, b := range fn.Blocks {
			for _, ins := range b.Instrs {
				var fa *ssa.FieldAddr
				what := ""
				switch x := ins.(type) {
				case *ssa.Store:
					if f, ok := x.Addr.(*ssa.FieldAddr); ok && isNilConst(x.Val) {
						fa, what = f, "sets to nil"
					}
				case *ssa.Call:
					if calleeShort(&x.Call) == "Bytes" && len(x.Call.Args) == 1 {
						if g := x.Call.StaticCallee(); g != nil && strings.HasSuffix(fnPkgPath(g), "internal/zero") {
							if u, ok := stripConv(x.Call.Args[0]).(*ssa.UnOp); ok {
								if f, ok := u.X.(*ssa.FieldAddr); ok {
									fa, what = f, "zeroes"
								}
							}
						}
					}
				}
				if fa == nil {
					continue
				}
				if tn, f := fieldAddrName(fa); tn != "managedAddress" || f != "privKeyEncrypted" {
					continue
				}
				if _, fresh := stripConv(fa.X).(*ssa.Alloc); fresh {
					continue // a field of the object being constructed
				}
				n++
				top := outermost(fn)
				c.Check(rule, "encrypted-key-only-cleared-by-conversion:"+fnName(top), ins.Pos(), allowed[top] || allowed[fn],
					fnName(top)+" "+what+" the ENCRYPTED private key of an address object outside the conversion to watching-only: the object the caller still holds (and the account's last-address mirror) can never be unlocked again and answers watching-only while the wallet is unlocked")
			}
		}
	}
	c.Floor(rule, "places that drop an address's encrypted private key", n, 1)
}

// checkSchemaPresenceIsNilness: an account row says whether it carries an overriding address schema; the decision is the
// nil-ness of the schema pointer and nothing else. A test of the pointee's VALUE in that decision drops a legitimate
// override whose fields happen to be the zero values (pay-to-pubkey-hash on both branches), and the account issues the
// scope's address format instead of the one it was imported with.
func checkSchemaPresenceIsNilness(c *Ctx, rule string) {
	p := c.P
	n := 0
	for _, fn := range p.FuncsIn("waddrmgr") {
		if !strings.HasPrefix(fn.Name(), "serialize") {
			continue
		}
		var prm *ssa.Parameter
		for _, q := range fn.Params {
			if strings.HasSuffix(q.Type().String(), "ScopeAddrSchema") {
				prm = q
			}
		}
		if prm == nil {
			continue
		}
		// every branch (and every value merged into a bool) that depends on the parameter depends on its nil-ness only
		for _, b := range fn.Blocks {
			for _, ins := range b.Instrs {
				bo, ok := ins.(*ssa.BinOp)
				if !ok || (bo.Op != token.EQL && bo.Op != token.NEQ) {
					continue
				}
				dep := false
				for _, side := range []ssa.Value{bo.X, bo.Y} {
					for _, o := range (&Slicer{P: p, ThroughDeref: true, ThroughFieldsOfAllocs: true}).Origins(side) {
						if o == ssa.Value(prm) {
							dep = true
						}
						if u, ok := o.(*ssa.UnOp); ok && stripConv(u.X) == ssa.Value(prm) {
							dep = true
						}
					}
				}
				if !dep {
					continue
				}
				n++
				isNilTest := (stripConv(bo.X) == ssa.Value(prm) && isNilConst(bo.Y)) || (stripConv(bo.Y) == ssa.Value(prm) && isNilConst(bo.X))
				c.Check(rule, "schema-presence-is-nilness:"+fn.Name(), bo.Pos(), isNilTest,
					fn.Name()+" decides about the overriding address schema by comparing its value, not only its presence: an override equal to the zero value (P2PKH on both branches) is stored as 'no override' and the account issues addresses of the scope's format")
			}
		}
	}
	c.Floor(rule, "comparisons on the schema parameter of a row serialiser", n, 1)
}

// checkKeyedAddressRegisteredBeforeHandOut: Lock() wipes the clear-text keys of the address objects it can reach: those in
// the scoped manager's address cache. A function that builds an address object WITH private key material and hands it to
// its caller registers it in that cache itself, before it returns — not in a commit hook: if the transaction rolls back
// the hook never runs, the caller still holds the object, and no later Lock() clears it.
func checkKeyedAddressRegisteredBeforeHandOut(c *Ctx, rule string) {
	p := c.P
	n := 0
	for _, fn := range p.FuncsIn("waddrmgr") {
		if fn.Parent() != nil || recvName(fn) != "ScopedKeyManager" {
			continue
		}
		for _, call := range callsNamed(fn, "newManagedAddress") {
			// the private-key constructor (it is handed the key)
			g := call.Call.StaticCallee()
			if g == nil || g.Name() != "newManagedAddress" {
				continue
			}
			n++
			var inCacheD func(ins ssa.Instruction, depth int) bool
			inCacheD = func(ins ssa.Instruction, depth int) bool {
				if mu, ok := ins.(*ssa.MapUpdate); ok {
					_, f, _, okf := fieldOf(stripConv(mu.Map))
					return okf && f == "addrs"
				}
				// a helper of the package that inserts on every path to its return (synchronously: a plain call)
				hc, ok := ins.(*ssa.Call)
				if !ok || depth > 2 {
					return false
				}
				h := hc.Call.StaticCallee()
				if h == nil || h.Pkg == nil || h.Pkg != fn.Pkg || len(h.Blocks) == 0 {
					return false
				}
				q := &PathQuery{Fn: h,
					Barrier: func(i ssa.Instruction) bool { return inCacheD(i, depth+1) },
					Target: func(i ssa.Instruction, _ *ssa.BasicBlock) bool {
						_, isRet := i.(*ssa.Return)
						return isRet
					}}
				return len(q.From(nil)) == 0
			}
			inCache := func(ins ssa.Instruction) bool { return inCacheD(ins, 0) }
			bad := p.mustPassToSuccess(fn, call, inCache, nil)
			c.Check(rule, "keyed-address-registered-before-hand-out:"+fn.Name(), call.Pos(), bad == nil,
				fnName(fn)+" can hand out an address object that holds a private key without having put it into the address cache itself (the insertion is conditional or deferred to a commit hook): after a rolled-back transaction the caller holds an object no Lock() will ever wipe")
		}
	}
	c.Floor(rule, "constructions of address objects from a private key", n, 1)
}

// checkSyncStateReadUnderManagerLock: the synced-to stamp is three words that SetSyncedTo replaces under the manager's
// write lock; a reader without the lock can see the height of one block with the hash of another — a tip the wallet never
// had. Every read of the stamp in an exported Manager method happens with the manager mutex held.
func checkSyncStateReadUnderManagerLock(c *Ctx, rule string) {
	p := c.P
	n := 0
	for _, fn := range p.FuncsIn("waddrmgr") {
		if fn.Parent() != nil || recvName(fn) != "Manager" || fn.Object() == nil || !fn.Object().Exported() {
			continue
		}
		for _, b := range fn.Blocks {
			for _, ins := range b.Instrs {
				u, ok := ins.(*ssa.UnOp)
				if !ok || u.Op != token.MUL {
					continue
				}
				fa, ok := u.X.(*ssa.FieldAddr)
				if !ok {
					continue
				}
				tn, f := fieldAddrName(fa)
				if tn != "syncState" || (f != "syncedTo" && f != "startBlock") {
					continue
				}
				n++
				held, why := p.heldUpward(u, 0, map[*ssa.Function]bool{})
				ok2 := held["waddrmgr.Manager.mtx"] || held["waddrmgr.Manager.mtx(R)"]
				c.Check(rule, "sync-state-read-under-manager-lock:"+fn.Name(), u.Pos(), ok2,
					fmt.Sprintf("Manager.%s reads the %s stamp without holding the manager mutex (held: %s; %s): concurrently with SetSyncedTo it can return a stamp that mixes two blocks", fn.Name(), f, lsString(held), strings.Join(why, "; ")))
			}
		}
	}
	c.Floor(rule, "reads of the sync stamps in exported Manager methods", n, 1)
}
