package main

import (
	"fmt"
	"go/token"
	"go/types"
	"sort"
	"strings"

	"golang.org/x/tools/go/ssa"
)

// P4: must-hold lockset analysis.

// mutexKey identifies a mutex by the struct type and field that holds it.
func mutexKey(recv ssa.Value) string {
	switch x := recv.(type) {
	case *ssa.FieldAddr:
		tn, fn := fieldAddrName(x)
		pk := ""
		if pt, ok := x.X.Type().Underlying().(*types.Pointer); ok {
			if n, ok := pt.Elem().(*types.Named); ok && n.Obj().Pkg() != nil {
				pk = n.Obj().Pkg().Name() + "."
			}
		}
		return pk + tn + "." + fn
	case *ssa.Global:
		return x.Pkg.Pkg.Name() + "." + x.Name()
	}
	return ""
}

// lockOp classifies an instruction as Lock (+1) / Unlock (-1) of a mutex key.
func lockOp(ins ssa.Instruction) (key string, op int) {
	c, ok := ins.(*ssa.Call)
	if !ok {
		return "", 0
	}
	f := c.Call.StaticCallee()
	if f == nil || f.Signature.Recv() == nil || len(c.Call.Args) == 0 {
		return "", 0
	}
	pk := fnPkg(f)
	if pk == nil || pk.Path() != "sync" {
		return "", 0
	}
	rn := recvName(f)
	if rn != "Mutex" && rn != "RWMutex" {
		return "", 0
	}
	k := mutexKey(c.Call.Args[0])
	if k == "" {
		return "", 0
	}
	switch f.Name() {
	case "Lock":
		return k, 1
	case "Unlock":
		return k, -1
	case "RLock":
		return k + "(R)", 1
	case "RUnlock":
		return k + "(R)", -1
	}
	return "", 0
}

type lockState map[string]bool

func (s lockState) clone() lockState {
	o := lockState{}
	for k := range s {
		o[k] = true
	}
	return o
}

func intersect(a, b lockState) lockState {
	o := lockState{}
	for k := range a {
		if b[k] {
			o[k] = true
		}
	}
	return o
}

func equalLS(a, b lockState) bool {
	if len(a) != len(b) {
		return false
	}
	for k := range a {
		if !b[k] {
			return false
		}
	}
	return true
}

// locksetAt returns the set of mutexes held on every path at instruction `at`
// within its function (locks taken by callers are not included).
func locksetAt(at ssa.Instruction) lockState {
	fn := at.Parent()
	in := map[*ssa.BasicBlock]lockState{}
	out := map[*ssa.BasicBlock]lockState{}
	transfer := func(b *ssa.BasicBlock, s lockState, stop ssa.Instruction) lockState {
		s = s.clone()
		for _, ins := range b.Instrs {
			if ins == stop {
				return s
			}
			if k, op := lockOp(ins); op == 1 {
				s[k] = true
			} else if op == -1 {
				delete(s, k)
			}
		}
		return s
	}
	in[fn.Blocks[0]] = lockState{}
	for changed := true; changed; {
		changed = false
		for _, b := range fn.Blocks {
			var cur lockState
			if b == fn.Blocks[0] {
				cur = lockState{}
			} else {
				first := true
				for _, p := range b.Preds {
					po, ok := out[p]
					if !ok {
						continue // unvisited = top
					}
					if first {
						cur = po.clone()
						first = false
					} else {
						cur = intersect(cur, po)
					}
				}
				if first {
					continue
				}
			}
			o := transfer(b, cur, nil)
			if prev, ok := out[b]; !ok || !equalLS(prev, o) || !equalLS(in[b], cur) {
				in[b] = cur
				out[b] = o
				changed = true
			}
		}
	}
	s, ok := in[at.Block()]
	if !ok {
		return lockState{}
	}
	return transfer(at.Block(), s, at)
}

func lsString(s lockState) string {
	var ks []string
	for k := range s {
		ks = append(ks, k)
	}
	sort.Strings(ks)
	return "{" + strings.Join(ks, ",") + "}"
}

// txRunner: is the call a synchronous database-transaction runner
// (walletdb.Update/View, DB.Update/View) that invokes its closure argument
// before returning?
func isTxRunner(cc *ssa.CallCommon, wantWrite bool) bool {
	name := ""
	if cc.IsInvoke() {
		if cc.Method.Pkg() == nil || cc.Method.Pkg().Path() != walletdbPath {
			return false
		}
		name = cc.Method.Name()
	} else if f := cc.StaticCallee(); f != nil {
		if !strings.HasPrefix(fnPkgPath(f), walletdbPath) {
			return false
		}
		name = f.Name()
	}
	switch name {
	case "Update", "Batch":
		return true
	case "View":
		return !wantWrite
	}
	return false
}

// heldUpward computes the set of mutexes held at `site` on every call chain:
// the intra-procedural must-lockset, united with what every caller chain
// guarantees. Closures are followed to the call they are passed to when that
// call invokes them synchronously (transaction runners, direct calls of the
// parameter); `go` statements, stored closures and exported roots contribute
// the empty set.
func (p *Program) heldUpward(site ssa.Instruction, depth int, trail map[*ssa.Function]bool) (lockState, []string) {
	local := locksetAt(site)
	fn := site.Parent()
	if depth > 12 || trail[fn] {
		return local, nil
	}
	trail[fn] = true
	defer delete(trail, fn)
	var why []string
	var fromCallers lockState
	first := true
	merge := func(s lockState) {
		if first {
			fromCallers = s
			first = false
		} else {
			fromCallers = intersect(fromCallers, s)
		}
	}
	if fn.Parent() != nil {
		// closure: find where it is created and what happens to it
		used := false
		for _, b := range fn.Parent().Blocks {
			for _, ins := range b.Instrs {
				mc, ok := ins.(*ssa.MakeClosure)
				if !ok || mc.Fn != fn {
					continue
				}
				for _, u := range usesOf(mc) {
					used = true
					switch x := u.(type) {
					case *ssa.Call:
						if x.Call.Value == mc || isTxRunner(&x.Call, false) || p.calleeInvokesArg(x, mc) {
							s, w := p.heldUpward(x, depth+1, trail)
							why = append(why, w...)
							merge(s)
						} else {
							why = append(why, "closure "+fnName(fn)+" passed to "+calleeDesc(&x.Call)+" which is not known to invoke it synchronously")
							merge(lockState{})
						}
					case *ssa.Defer:
						// runs at function exit: whatever is held at exit; approximate by the defer site
						s, w := p.heldUpward(x, depth+1, trail)
						why = append(why, w...)
						merge(s)
					default:
						why = append(why, "closure "+fnName(fn)+" escapes (stored, sent or started as goroutine) at "+p.Pos(u.Pos()))
						merge(lockState{})
					}
				}
			}
		}
		if !used {
			merge(lockState{})
		}
	} else {
		sites := p.callers(fn)
		if len(sites) == 0 {
			why = append(why, "root "+fnName(fn))
			merge(lockState{})
		}
		for _, cs := range sites {
			// compiler-generated promotion wrappers of unexported methods ((*wallet.secretSource).lock for the embedded
			// *waddrmgr.Manager) cannot be named outside the defining package and have no callers: not a call chain
			if w := cs.Parent(); w.Synthetic != "" && !token.IsExported(w.Name()) && len(p.callers(w)) == 0 {
				continue
			}
			if _, isGo := cs.(*ssa.Go); isGo {
				why = append(why, "started as goroutine at "+p.Pos(cs.Pos()))
				merge(lockState{})
				continue
			}
			s, w := p.heldUpward(cs, depth+1, trail)
			why = append(why, w...)
			merge(s)
		}
		// exported functions/methods may also be called from outside the program
		if fn.Object() != nil && fn.Object().Exported() {
			why = append(why, "exported root "+fnName(fn))
			merge(lockState{})
		}
	}
	res := local.clone()
	for k := range fromCallers {
		res[k] = true
	}
	return res, why
}

func calleeDesc(cc *ssa.CallCommon) string {
	if cc.IsInvoke() {
		return ifaceName(cc.Value.Type()) + "." + cc.Method.Name()
	}
	if f := cc.StaticCallee(); f != nil {
		return fnName(f)
	}
	return "dynamic " + cc.Value.Name()
}

// calleeInvokesArg: the static callee directly calls the parameter bound to arg.
func (p *Program) calleeInvokesArg(c *ssa.Call, arg ssa.Value) bool {
	f := c.Call.StaticCallee()
	if f == nil || len(f.Blocks) == 0 {
		return false
	}
	for i, a := range c.Call.Args {
		if a != arg || i >= len(f.Params) {
			continue
		}
		prm := f.Params[i]
		for _, u := range usesOf(prm) {
			if cc, ok := u.(*ssa.Call); ok && cc.Call.Value == prm {
				return true
			}
		}
	}
	return false
}

// guardedByProbe prints, for every field of the given struct types, how many of its accesses in package pkg
// happen with the given mutex held (must-hold, all call chains). Development probe (-probe guardedby).
func guardedByProbe(p *Program) {
	type key struct{ tn, f string }
	type stat struct {
		held, not int
		sites     []string
	}
	stats := map[key]*stat{}
	mutexOf := map[string]string{"Manager": "waddrmgr.Manager.mtx", "ScopedKeyManager": "waddrmgr.ScopedKeyManager.mtx"}
	memo := map[ssa.Instruction]lockState{}
	for _, fn := range p.FuncsIn("waddrmgr") {
		for _, b := range fn.Blocks {
			for _, ins := range b.Instrs {
				fa, ok := ins.(*ssa.FieldAddr)
				if !ok {
					continue
				}
				tn, f := fieldAddrName(fa)
				mu, ok := mutexOf[tn]
				if !ok || f == "mtx" {
					continue
				}
				held, ok := memo[ins]
				if !ok {
					held, _ = p.heldUpward(ins, 0, map[*ssa.Function]bool{})
					memo[ins] = held
				}
				k := key{tn, f}
				st := stats[k]
				if st == nil {
					st = &stat{}
					stats[k] = st
				}
				if held[mu] || held[mu+"(R)"] {
					st.held++
				} else {
					st.not++
					st.sites = append(st.sites, fnName(fn)+"@"+p.Pos(ins.Pos()))
				}
			}
		}
	}
	var ks []key
	for k := range stats {
		ks = append(ks, k)
	}
	sort.Slice(ks, func(i, j int) bool { return ks[i].tn+ks[i].f < ks[j].tn+ks[j].f })
	for _, k := range ks {
		st := stats[k]
		fmt.Printf("%-18s %-26s held=%3d not=%3d", k.tn, k.f, st.held, st.not)
		if st.not > 0 && st.not <= 12 {
			fmt.Printf("  %v", st.sites)
		}
		fmt.Println()
	}
}
