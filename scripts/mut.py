#!/usr/bin/env python3
"""Mutation harness for the checker (development tool, not a registered check).
  mut.py run <patch> [PROP ...]     apply patch to a scratch copy of /repo, run vcheck for PROPs (default: all)
  mut.py corpus [-j N] [-all] [dir ...]   run every */patch.diff|*.patch under the dirs (default /verif/mutants /verif/seeded)
A mutant is 'caught' if vcheck reports, for the expected property, a (rule, construct) violation that the
unmodified tree does not report. With -all, every property is run and the set of firing properties is shown.
Mutants under a 'neutral' directory are behaviour-preserving edits: they must add no report for any property.
"""
import json, os, shutil, subprocess, sys, tempfile, glob, re
from concurrent.futures import ThreadPoolExecutor

VCHECK = os.environ.get("VCHECK", "/verif/bin/vcheck")
ENV = dict(os.environ, GOFLAGS="-mod=mod", GOPROXY="off", GOSUMDB="off", GOTOOLCHAIN="local")
ALL = ["C%02d" % i for i in range(1, 21)]

def registered():
    m = json.load(open("/verif/MANIFEST.json"))
    return sorted(c["property_id"] for c in m["checks"])

def run_vcheck(repo, props):
    ev = tempfile.mkdtemp(prefix="vmut-ev-")
    try:
        env = dict(ENV, VERIF_REPO=repo, VERIF_EVIDENCE_DIR=ev)
        r = subprocess.run([VCHECK, "-property", ",".join(props)], env=env, capture_output=True, text=True)
        out = r.stdout + r.stderr
        reports = set()
        for l in out.splitlines():
            m = re.match(r"REPORT (\S+) (\S+): (.*?) — ", l)
            if m:
                reports.add((m.group(1), m.group(2), m.group(3)))
            elif l.startswith("REPORT "):
                reports.add((l.split()[1], "infra", l[:200]))
        return reports, out
    finally:
        shutil.rmtree(ev, ignore_errors=True)

_baseline = {}
def baseline(props):
    key = ",".join(props)
    if key not in _baseline:
        _baseline[key] = run_vcheck("/repo", props)[0]
    return _baseline[key]

def scratch_copy():
    d = tempfile.mkdtemp(prefix="vmut-")
    subprocess.check_call(["rsync", "-a", "--exclude", ".git", "/repo/", d + "/"])
    return d

def run_patch(patch, props):
    d = scratch_copy()
    try:
        r = subprocess.run(["git", "apply", "--whitespace=nowarn", os.path.abspath(patch)], cwd=d, capture_output=True, text=True)
        if r.returncode != 0:
            r = subprocess.run(["patch", "-p1", "-s", "-i", os.path.abspath(patch)], cwd=d, capture_output=True, text=True)
            if r.returncode != 0:
                return None, "patch does not apply: " + (r.stderr + r.stdout).strip()[:300]
        reports, out = run_vcheck(d, props)
        new = sorted(reports - baseline(props))
        return new, out
    finally:
        shutil.rmtree(d, ignore_errors=True)

def expected_of(path):
    meta = os.path.join(os.path.dirname(path), "meta.json")
    if os.path.exists(meta):
        try:
            return json.load(open(meta)).get("property")
        except Exception:
            pass
    m = re.search(r"/(C\d\d)", path)
    return m.group(1) if m else None

def main():
    if len(sys.argv) < 2:
        print(__doc__); return 2
    if sys.argv[1] == "run":
        props = sys.argv[3:] or registered()
        new, out = run_patch(sys.argv[2], props)
        print("new reports:")
        for n in new or []: print("  ", n)
        return 0
    if sys.argv[1] == "corpus":
        args = sys.argv[2:]
        jobs = 4
        if "-j" in args:
            i = args.index("-j"); jobs = int(args[i + 1]); del args[i:i + 2]
        outp = None
        if "-o" in args:
            i = args.index("-o"); outp = args[i + 1]; del args[i:i + 2]
        allp = "-all" in args
        verbose = "-v" in args
        args = [a for a in args if a not in ("-all", "-v")]
        dirs = args or ["/verif/mutants", "/verif/seeded", "/verif/neutral"]
        files = []
        for d in dirs:
            if os.path.isfile(d): files.append(d); continue
            files += glob.glob(d + "/**/*.patch", recursive=True) + glob.glob(d + "/**/patch.diff", recursive=True)
        files = sorted(set(os.path.abspath(f) for f in files if "/_invalid/" not in f))
        reg = registered()
        def work(f):
            exp = expected_of(f)
            neutral = "/neutral/" in f
            props = reg if (allp or neutral or not exp) else [exp]
            if not neutral and exp and exp not in reg:
                return f, exp, neutral, None, f"property {exp} not registered"
            baseline(props)
            new, out = run_patch(f, props)
            return f, exp, neutral, new, out
        ok = miss = 0
        results = []
        baseline(reg) if (allp) else None
        with ThreadPoolExecutor(max_workers=jobs) as ex:
            for f, exp, neutral, new, out in ex.map(work, files):
                rel = os.path.relpath(f, "/verif")
                if new is None:
                    print(f"SKIP   {rel}: {out}"); continue
                fired = sorted(set(n[0] for n in new))
                if neutral:
                    good = not new
                    tag = "QUIET " if good else "FALSE-ALARM"
                else:
                    good = exp in fired
                    tag = "CAUGHT" if good else "MISSED"
                print(f"{tag} {rel} fired={fired}")
                if (not good) or verbose:
                    for n in new: print("      ", n[1], n[2])
                ok += good; miss += (not good)
                results.append({"patch": rel, "expected": exp, "kind": "neutral" if neutral else ("seeded" if rel.startswith("seeded/") else "mutant"),
                                "result": tag.strip(), "fired": fired, "new_reports": [[n[0], n[1], n[2]] for n in new]})
        print(f"{ok} as expected, {miss} not")
        if outp:
            json.dump(results, open(outp, "w"), indent=1)
        return 0 if miss == 0 else 1

sys.exit(main())
