#!/usr/bin/env python3
"""Mutation harness for the checker (development tool, not a registered check).
  mut.py run <patch> [PROP ...]     apply patch to a scratch copy of /repo, run vcheck for PROPs (default: all)
  mut.py corpus [dir ...]           run every */patch.diff|*.patch under the dirs (default /verif/mutants /verif/seeded)
A mutant is 'caught' if vcheck prints a VIOLATION line for the expected property.
"""
import json, os, shutil, subprocess, sys, tempfile, glob, re

VCHECK = "/verif/bin/vcheck"
ENV = dict(os.environ, GOFLAGS="-mod=mod", GOPROXY="off", GOSUMDB="off", GOTOOLCHAIN="local")

def scratch_copy():
    d = tempfile.mkdtemp(prefix="vmut-")
    subprocess.check_call(["rsync", "-a", "--exclude", ".git", "/repo/", d + "/"])
    return d

def run_patch(patch, props):
    d = scratch_copy()
    ev = tempfile.mkdtemp(prefix="vmut-ev-")
    try:
        r = subprocess.run(["git", "apply", "--whitespace=nowarn", os.path.abspath(patch)], cwd=d, capture_output=True, text=True)
        if r.returncode != 0:
            r = subprocess.run(["patch", "-p1", "-s", "-i", os.path.abspath(patch)], cwd=d, capture_output=True, text=True)
            if r.returncode != 0:
                return None, "patch does not apply: " + r.stderr.strip()[:300]
        env = dict(ENV, VERIF_REPO=d, VERIF_EVIDENCE_DIR=ev)
        arg = "all" if not props else None
        out = ""
        if arg:
            r = subprocess.run([VCHECK, "-property", "all"], env=env, capture_output=True, text=True)
            out = r.stdout + r.stderr
        else:
            for p in props:
                r = subprocess.run([VCHECK, "-property", p], env=env, capture_output=True, text=True)
                out += r.stdout + r.stderr
        fired = sorted(set(re.findall(r"^VIOLATION property=(\S+)", out, re.M)))
        reports = [l for l in out.splitlines() if l.startswith("REPORT ")]
        return fired, "\n".join(reports)
    finally:
        shutil.rmtree(d, ignore_errors=True)
        shutil.rmtree(ev, ignore_errors=True)

def expected_of(path):
    # /verif/mutants/C09/x.patch or /verif/seeded/C09-a/patch.diff with meta.json
    m = re.search(r"/(C\d\d)", path)
    meta = os.path.join(os.path.dirname(path), "meta.json")
    if os.path.exists(meta):
        try:
            return json.load(open(meta)).get("property")
        except Exception:
            pass
    return m.group(1) if m else None

def main():
    if len(sys.argv) < 2:
        print(__doc__); return 2
    if sys.argv[1] == "run":
        fired, rep = run_patch(sys.argv[2], sys.argv[3:])
        print("fired:", fired); print(rep); return 0
    if sys.argv[1] == "corpus":
        dirs = sys.argv[2:] or ["/verif/mutants", "/verif/seeded"]
        files = []
        for d in dirs:
            files += glob.glob(d + "/**/*.patch", recursive=True) + glob.glob(d + "/**/patch.diff", recursive=True)
        ok = miss = 0
        for f in sorted(files):
            exp = expected_of(f)
            neutral = "/neutral/" in f
            fired, rep = run_patch(f, [exp] if (exp and not neutral) else [])
            if fired is None:
                print(f"SKIP  {f}: {rep}"); continue
            if neutral:
                good = not fired
            else:
                good = exp in fired
            print(("CAUGHT " if good and not neutral else "QUIET  " if good else "MISSED " if not neutral else "FALSE-ALARM "), f, fired)
            if not good or "-v" in sys.argv:
                print("   " + rep.replace("\n", "\n   "))
            ok += good; miss += (not good)
        print(f"{ok} as expected, {miss} not")
        return 0 if miss == 0 else 1

sys.exit(main())
