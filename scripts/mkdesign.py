#!/usr/bin/env python3
"""Regenerates the machine-written appendices of DESIGN.md (between <!-- BEGIN:x --> / <!-- END:x --> markers):
  inventory  - per property: rules, obligation kinds, instance counts on the current tree (from evidence/*.json)
  matrix     - which check caught which seeded / own mutation, neutral corpus results (from corpus_results.json,
               written by `scripts/mut.py corpus -all -o corpus_results.json`)
Documentation only; no registered check depends on it."""
import json, glob, os, re, collections
V = "/verif"

def inventory():
    out = []
    for f in sorted(glob.glob(V + "/evidence/C*.json")):
        d = json.load(open(f))
        pid = d["property_id"]
        obs = d["coverage"].get("all_obligations") or []
        rules = collections.OrderedDict()
        for o in obs:
            kind = o["construct"].split(":")[0]
            kind = re.sub(r"#\d+$", "", kind)
            r = rules.setdefault(o["rule"], collections.OrderedDict())
            e = r.setdefault(kind, {"n": 0, "bad": 0, "req": o.get("requires", "")})
            e["n"] += 1
            e["bad"] += (not o["ok"])
        out.append(f"#### {pid} — {len(obs)} obligations\n")
        out.append("| rule | obligation kind | instances | violated when |")
        out.append("|---|---|---|---|")
        for r, kinds in rules.items():
            for k, e in kinds.items():
                n = str(e["n"]) + (f" ({e['bad']} known finding)" if e["bad"] else "")
                req = e["req"].replace("|", "/").replace("\n", " ")
                if len(req) > 150: req = req[:147] + "…"
                out.append(f"| {r} | `{k}` | {n} | {req} |")
        out.append("")
    return "\n".join(out)

def matrix():
    p = V + "/corpus_results.json"
    if not os.path.exists(p):
        return "(no corpus run recorded)"
    res = json.load(open(p))
    out = []
    for kind, title in (("seeded", "Independently seeded mutations (sub-agents; each confirmed: compiles, suite passes, demo fails with / passes without)"),
                        ("mutant", "Own mutants (incl. reverts of every `fix:` commit)")):
        rows = [r for r in res if r["kind"] == kind]
        caught = sum(r["result"] == "CAUGHT" for r in rows)
        out.append(f"**{title}: {caught}/{len(rows)} caught by the expected property's check.**\n")
        out.append("| mutation | property | result | rules that fire for that property | other properties firing |")
        out.append("|---|---|---|---|---|")
        for r in rows:
            exp = r["expected"]
            rules = sorted(set(n[1] for n in r["new_reports"] if n[0] == exp))
            others = [x for x in r["fired"] if x != exp]
            name = r["patch"].replace("/patch.diff", "").replace("seeded/", "").replace("mutants/", "").replace(".patch", "")
            out.append(f"| {name} | {exp} | {r['result'].lower()} | {', '.join(rules) or '—'} | {', '.join(others) or '—'} |")
        out.append("")
    rows = [r for r in res if r["kind"] == "neutral"]
    quiet = sum(r["result"] == "QUIET" for r in rows)
    out.append(f"**Behaviour-preserving edits (must add no report for any property): {quiet}/{len(rows)} quiet.**\n")
    bad = [r for r in rows if r["result"] != "QUIET"]
    for r in bad:
        out.append(f"* FALSE ALARM {r['patch']}: {r['new_reports']}")
    out.append("")
    return "\n".join(out)

def main():
    p = V + "/DESIGN.md"
    s = open(p).read()
    for name, fn in (("inventory", inventory), ("matrix", matrix)):
        b, e = f"<!-- BEGIN:{name} -->", f"<!-- END:{name} -->"
        if b in s and e in s:
            i, j = s.index(b) + len(b), s.index(e)
            s = s[:i] + "\n" + fn() + "\n" + s[j:]
        else:
            print("marker missing:", name)
    open(p, "w").write(s)
main()
