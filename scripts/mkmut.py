#!/usr/bin/env python3
"""mkmut.py <name.patch> <repo-relative file> : reads OLD\n=====\nNEW from stdin, writes /verif/mutants/<name.patch>.
Applies the replacement to the first occurrence in /repo's file, captures git diff, restores the file."""
import subprocess,sys,os
name,file=sys.argv[1],sys.argv[2]
old,new=sys.stdin.read().split("\n=====\n")
new=new.rstrip("\n") if not old.endswith("\n") else new
os.chdir('/repo')
assert subprocess.run(['git','status','--porcelain','--untracked-files=no'],capture_output=True,text=True).stdout.strip()=="", "repo dirty"
s=open(file).read()
if s.count(old)<1:
    print("OLD not found in",file); sys.exit(1)
if s.count(old)>1: print("warning: OLD occurs",s.count(old),"times; replacing first")
i=s.find(old)
open(file,'w').write(s[:i]+new+s[i+len(old):])
d=subprocess.run(['git','diff'],capture_output=True,text=True).stdout
subprocess.run(['git','checkout','--','.'])
out='/verif/mutants/'+name
os.makedirs(os.path.dirname(out),exist_ok=True)
open(out,'w').write(d)
print("wrote",out,len(d.splitlines()),"lines")
