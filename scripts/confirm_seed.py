#!/usr/bin/env python3
"""confirm_seed.py <agent-worktree> <A|B> <seed-id> <property> : independently re-confirms a sub-agent mutation in a
fresh scratch worktree of /repo and, if confirmed, stores it under /verif/seeded/<seed-id>/.
Confirmed = demo passes without the patch, fails with it; patched tree builds; existing tests of the touched module's
packages pass with the patch."""
import json, os, re, shutil, subprocess, sys, glob
wt, X, sid, prop = sys.argv[1:5]
src = f"{wt}/MUTATION/{X}"
ENV = dict(os.environ, GOFLAGS="-mod=mod", GOPROXY="off", GOSUMDB="off", GOTOOLCHAIN="local")
where = open(f"{src}/where.txt").read()
def find_dir(where):
    # the demo directory = an existing repo directory named in where.txt
    cands = re.findall(r"[\w./-]+", where)
    best = None
    for c in cands:
        c2 = c.strip("./").rstrip("/")
        if c2.endswith("_test.go"):
            c2 = os.path.dirname(c2)
        if c2 and not c2.startswith("MUTATION") and os.path.isdir("/repo/" + c2) and any(f.endswith(".go") for f in os.listdir("/repo/" + c2)):
            if best is None or len(c2) > len(best):
                best = c2
    return best
d0 = find_dir(where)
if not d0:
    print("cannot parse where.txt:\n" + where); sys.exit(2)
class _M:
    def group(self, i): return d0
m = _M()
d = m.group(1).strip("/").removeprefix("./")
m = re.search(r"-run\s+'?\"?([^'\"\s]+)", where)
runpat = m.group(1)
tests = glob.glob(f"{src}/zz_mut_*_test.go") + glob.glob(f"{src}/*_test.go")
tests = sorted(set(tests))
cf = f"/tmp/cf-{sid}"
subprocess.run(["git", "-C", "/repo", "worktree", "remove", "--force", cf], capture_output=True)
subprocess.check_call(["git", "-C", "/repo", "worktree", "add", "-q", "--detach", cf, "HEAD"])
log = []
def sh(cmd, cwd):
    r = subprocess.run(cmd, shell=True, cwd=cwd, env=ENV, capture_output=True, text=True)
    log.append({"cmd": cmd, "cwd": cwd.replace(cf, "<worktree>"), "exit": r.returncode, "tail": (r.stdout + r.stderr)[-600:]})
    return r.returncode
try:
    for t in tests:
        shutil.copy(t, f"{cf}/{d}/")
    # which module?
    mod = d if os.path.exists(f"{cf}/{d}/go.mod") else ("." )
    for sub in ["wtxmgr", "walletdb", "wallet/txauthor", "wallet/txrules", "wallet/txsizes"]:
        if d == sub or d.startswith(sub + "/"):
            mod = sub
    pkg = "./" + os.path.relpath(d, mod) if mod != "." else "./" + d
    base = sh(f"go test -vet=off -count=1 -run '{runpat}' {pkg}", f"{cf}/{mod}")
    ap = subprocess.run(["git", "apply", "--whitespace=nowarn", f"{src}/patch.diff"], cwd=cf, capture_output=True, text=True)
    if ap.returncode != 0:
        print("PATCH DOES NOT APPLY", ap.stderr); sys.exit(1)
    build = sh("go build ./... ", f"{cf}/{mod}")
    mut = sh(f"go test -vet=off -count=1 -run '{runpat}' {pkg}", f"{cf}/{mod}")
    # existing tests with the patch: remove demo first
    for t in tests:
        os.remove(f"{cf}/{d}/{os.path.basename(t)}")
    touched = subprocess.run(["git", "diff", "--name-only"], cwd=cf, capture_output=True, text=True).stdout.split()
    if mod == ".":
        pk = sorted(set("./" + os.path.dirname(f) + "/..." for f in touched if f.endswith(".go")))
        # the wallet package tests exercise waddrmgr/wtxmgr as well
        if "./wallet/..." not in pk: pk.append("./wallet/...")
        suite = sh("go test -vet=off -count=1 -skip TestBitcoindEvents " + " ".join(pk), cf)
    else:
        suite = sh("go test -vet=off -count=1 ./...", f"{cf}/{mod}")
    ok = base == 0 and build == 0 and mut != 0 and suite == 0
    print(f"{sid}: demo-without-patch={'pass' if base==0 else 'FAIL'} build={'ok' if build==0 else 'FAIL'} demo-with-patch={'fail' if mut!=0 else 'PASS(!)'} existing-suite-with-patch={'pass' if suite==0 else 'FAIL'} => {'CONFIRMED' if ok else 'REJECTED'}")
    if not ok:
        for l in log: print(json.dumps(l)[:900])
        sys.exit(1)
    out = f"/verif/seeded/{sid}"
    os.makedirs(out, exist_ok=True)
    shutil.copy(f"{src}/patch.diff", out)
    for t in tests: shutil.copy(t, out)
    readme = open(f"{src}/README.md").read() if os.path.exists(f"{src}/README.md") else ""
    open(f"{out}/README.md", "w").write(readme)
    json.dump({"property": prop, "seed": sid, "touched": touched, "demo_dir": d, "demo_run": runpat,
               "needs_to_manifest": "see README.md (written by the independent sub-agent)",
               "confirmed_by": "scripts/confirm_seed.py in a fresh worktree of /repo HEAD",
               "ran": log}, open(f"{out}/meta.json", "w"), indent=1)
finally:
    subprocess.run(["git", "-C", "/repo", "worktree", "remove", "--force", cf], capture_output=True)
