#!/usr/bin/env python3
import sys
area, wt = sys.argv[1], sys.argv[2]
bold = len(sys.argv) > 3 and sys.argv[3] == 'bold'
rename = len(sys.argv) > 3 and sys.argv[3] == 'rename'
AREAS = {
 "N1": ("wtxmgr (its own Go module: run tests with `cd wtxmgr && go test ./...`)", "wtxmgr/tx.go (updateMinedBalance, insertMinedTx, addCredit, rollback, fetchCredits, Balance, LockOutput/UnlockOutput/DeleteExpiredLockedOutputs/ListLockedOutputs), wtxmgr/unconfirmed.go (insertMemPoolTx, removeDoubleSpends, removeConflict, UnminedTxs), wtxmgr/query.go (minedTxDetails, unminedTxDetails, TxDetails, RangeTransactions), wtxmgr/db.go (isLockedOutput, lockOutput, unlockOutput, credit/debit iterators, blockIterator next/prev, unspendRawCredit, value/fetch helpers), wtxmgr/kahnsort.go (makeGraph, graphRoots, DependencySort), wtxmgr/tx.go Store.Rollback/Store.Balance third pass, wtxmgr/unconfirmed.go insertMemPoolTx, wtxmgr/db.go deleteRawUnminedInput/forEachLockedOutput/putRawUnminedInput, wtxmgr/tx.go DeleteExpiredLockedOutputs/ListLockedOutputs, wtxmgr/query.go rangeBlockTransactions/RangeTransactions, wtxmgr/tx.go updateMinedBalance/addCredit/fetchCredits"),
 "N2": ("waddrmgr (root module: `go test ./waddrmgr/...`)", "waddrmgr/manager.go (lock, Lock, Unlock, ChangePassphrase, ConvertToWatchingOnly, selectCryptoKey, Create, createManagerKeyScope, deriveCoinTypeKey, deriveAccountKey), waddrmgr/scoped_manager.go (loadAccountInfo, deriveKey, nextAddresses, extendAddresses, newAccount, ImportPrivateKey, importPublicKey, importScriptAddress, RenameAccount, MarkUsed, DeriveFromKeyPathCache), waddrmgr/address.go (managedAddress lock/unlock/PrivKey, script address Script(), newManagedAddress*), waddrmgr/db.go (put*/serialize*/deletePrivateKeys/PutSyncedTo/putChainedAddress), waddrmgr/sync.go, plus Manager.Encrypt/Decrypt, keyToManaged, newAccount/newAccountWatchingOnly, existsAddress/fetchAddress/putAddress in db.go, NewScopedKeyManager, the hashed-passphrase handling in Unlock, the onCommit closure of nextAddresses, waddrmgr/db.go addBlockHash/PutSyncedTo, chainAddressRowToManaged, DeriveFromKeyPathCache, NewRawAccountWatchingOnly, importPublicKey, importScriptAddress, the tail of extendAddresses, waddrmgr/migrations.go upgradeToVersion5"),
 "N3": ("wallet (root module: `go test ./wallet/...`, takes ~30s)", "wallet/wallet.go (syncWithChain, recovery, recoverScopedAddresses, expandScopeHorizons, extendFoundAddresses, txCreator, NewAddress/NewChangeAddress/CurrentAddress/newAddress, resendUnminedTxs, reliablyPublishTransaction, publishTransaction, OpenWithRetry, walletLocker), wallet/createtx.go (txToOutputs, findEligibleOutputs, addrMgrWithChangeSource, validateMsgTx), wallet/chainntfns.go (handleChainNotifications, connectBlock, disconnectBlock), wallet/recovery.go (Resurrect), wallet/psbt.go (FundPsbt), wallet/import.go (ImportAccountDryRun, importAccount), wallet/createtx.go makeInputSource/constantInputSource/addrMgrWithChangeSource, wallet/wallet.go GetTransactions/ListTransactions (their RangeTransactions callbacks), wallet/chainntfns.go handleChainNotifications (RescanProgress/RescanFinished arms), wallet/wallet.go CreateSimpleTx and the startup reorg walk in syncWithChain, wallet/rescan.go rescanProgressHandler, wallet/recovery.go BranchRecoveryState methods (ReportFound, ExtendHorizon, NumInvalidInHorizon)"),
 "N4": ("walletdb (own module: `cd walletdb && go test ./...`), snacl and chain (root module: `go test ./snacl/... ./chain/... -skip TestBitcoindEvents`)", "walletdb/bdb/db.go (convertErr, transaction/bucket/cursor adapters, db.Update, db.View, db.Batch), walletdb/interface.go (View/Update helpers), walletdb/migration/manager.go (GetLatestVersion, VersionsToApply, upgrade, Upgrade), snacl/snacl.go (Encrypt, Decrypt, DeriveKey, deriveKey, Marshal, Unmarshal), chain/queue.go (ConcurrentQueue.Start/Stop), chain/block_filterer.go (FilterTx, FilterOutputAddrs), chain/btcd.go + chain/neutrino.go (MapRPCErr, handler notification queues), chain/errors.go (error tables: only reorder/regroup entries or comments, never change a key or value), walletdb/bdb/db.go bucket.Get/CreateBucket*/cursor methods, chain/bitcoind_client.go onBlockConnected/onBlockDisconnected/onRelevantTx/onRescanProgress (the selects that send into the notification queue), chain/block_filterer.go FilterBlock, chain/bitcoind_client.go Start/Stop, chain/neutrino.go onBlockConnected/onFilteredBlockConnected, walletdb/migration/manager.go Upgrade, walletdb/bdb/db.go transaction.OnCommit/Commit/Rollback, snacl/snacl.go Zero methods"),
 "N5": ("wallet/txauthor, wallet/txsizes, wallet/txrules (each its own module: `cd wallet/txauthor && go test ./...` etc.)", "wallet/txauthor/author.go (NewUnsignedTransaction, AddAllInputScripts), wallet/txsizes/size.go (EstimateVirtualSize, EstimateSerializeSize, GetMinInputVirtualSize, SumOutputSerializeSizes), wallet/txrules/rules.go (FeeForSerializeSize, IsDustOutput, CheckOutput) - e.g. name the intermediate product in FeeForSerializeSize, restructure its clamping; wallet/txsizes/size.go GetMinInputVirtualSize and the Redeem*InputSize constant block (e.g. introduce a named constant for the common fixed part WITHOUT changing any value)"),
}
mod, funcs = AREAS[area]
BOLD = """
## This round: BOLDER refactorings
The earlier rounds used small, local edits. This time each of your five refactorings should be a MEDIUM-SIZED restructuring that still provably preserves behaviour exactly, e.g.:
- split a long function into two or three helpers (passing the needed state explicitly), or merge two tiny helpers back into their single caller;
- turn a closure that captures several variables into a method or a top-level function with explicit parameters (or the reverse);
- rename the receiver and several locals/parameters consistently throughout a function; reorder function declarations within the file;
- introduce a small unexported struct or named type to group values that travel together, and thread it through;
- replace a `switch` over a type/constant by a table-driven lookup (map or slice of funcs) with identical cases, or the reverse;
- restructure error handling shape (`if err := f(); err != nil` vs two statements; single exit vs early returns; named results) without changing which error is returned where;
- hoist/sink declarations, convert `for {}` + break into a conditioned `for`, convert recursion depth-1 helpers into loops only when trivially equivalent.
Keep every database write, lock/unlock, channel operation and log-independent result in exactly the same order and under exactly the same conditions.
"""
RENAME = """
## This round: RENAMES, MOVES and SIGNATURE reshaping
The earlier rounds restructured function bodies. This time each of your five refactorings must be of one of these kinds (use a different kind for each; apply it CONSISTENTLY to the declaration and every use, including the package's _test.go files so that the existing tests still compile):
1. rename two to four UNEXPORTED functions or methods of the listed functions (or helpers they call) to better names;
2. rename two to four unexported STRUCT FIELDS and/or an unexported TYPE that the listed functions use;
3. rename unexported package-level VARIABLES / CONSTANTS (bucket names, key names, error strings' variables ...) used by the listed functions;
4. MOVE two or three of the listed functions (with the helpers only they use) into another existing or a new .go file of the same package, and/or reorder declarations inside a file;
5. reshape the SIGNATURE of an unexported function of the list: reorder its parameters, or group two or three of them into a small unexported struct, or turn a package-level function into a method (or the reverse), updating every caller;
6. rename the receiver plus most parameters / named results / locals of one long function of the list.
Do not rename or reshape EXPORTED identifiers. Keep every statement's behaviour exactly as it is.
"""
print(f"""You are helping test a static-analysis effort for the Go project btcsuite/btcwallet. Your job is the OPPOSITE of sabotage: produce FIVE independent, realistic, strictly BEHAVIOUR-PRESERVING refactorings of existing code, of the kind a maintainer would merge in a clean-up PR. They are used to check that analysis tools do not raise false alarms on harmless edits. Work ONLY inside your scratch git worktree {wt} (a checkout of the repository). Do NOT touch /repo or /verif and do not read anything under /verif.

## Where
Area: {mod}
Refactor code in these functions (spread your five refactorings over different functions/files of this list): {funcs}

{BOLD if bold else (RENAME if rename else "")}
## What counts
Each refactoring must keep the observable behaviour EXACTLY the same for all inputs, states, error paths and interleavings (same database writes in the same order, same errors returned/wrapped the same way, same locking, same log-independent results). Typical shapes - use a different one for each of the five:
- extract a block into a well-named helper function (or inline a small helper);
- rename local variables / reorder independent declarations; replace `var x T; x = f()` by `x := f()`;
- convert an if/else-if chain to a switch (or the reverse); invert a condition with an early return / continue;
- change a loop form without changing iteration order or coverage (range over slice <-> index loop; hoist an invariant out of a loop);
- replace a manual Lock/Unlock pair by Lock + defer Unlock where the critical section provably stays the same (or split a function in two while keeping the same lock span);
- combine two sequential error checks, introduce a named intermediate variable, replace a closure by a named method value, move a constant expression into a named constant.
Do NOT: change any arithmetic or comparison semantics, drop or add checks, change which errors are returned, change the order of database operations, change lock scope, or touch test files. If in doubt whether something is behaviour-preserving, do not do it.

## Practical notes
- No network. For every shell command: `export GOFLAGS=-mod=mod GOPROXY=off GOSUMDB=off GOTOOLCHAIN=local`.
- The repository is SIX Go modules (root, wtxmgr, walletdb, wallet/txauthor, wallet/txrules, wallet/txsizes); the root module links the module-cache copies of the five sub-modules, so test a sub-module from inside its own directory.
- After each refactoring run `go build ./...`, `go vet` of the touched package and the existing tests of the touched module; they must pass. (`chain`'s TestBitcoindEvents fails on the unmodified tree too: no bitcoind binary; skip it.)

## Deliverables (write into {wt}/REFACTOR/)
For k in 1..5: `{wt}/REFACTOR/k/patch.diff` = `git diff` of that ONE refactoring against the unmodified tree (each patch must apply on its own with `git apply` from the repository root), and `{wt}/REFACTOR/k/README.md` (which function, which shape, why behaviour is unchanged, what you ran). Produce each patch from a clean tree (git checkout -- . between them). Leave tracked files UNMODIFIED at the end. Do NOT use `git stash` (the stash is shared between worktrees of other workers): keep work in patch files and use `git apply` / `git apply -R` / `git checkout -- .`. Finish with a short report listing the five refactorings.""")
