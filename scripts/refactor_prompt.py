#!/usr/bin/env python3
import sys
area, wt = sys.argv[1], sys.argv[2]
AREAS = {
 "N1": ("wtxmgr (its own Go module: run tests with `cd wtxmgr && go test ./...`)", "wtxmgr/tx.go (updateMinedBalance, insertMinedTx, addCredit, rollback, fetchCredits, Balance, LockOutput/UnlockOutput/DeleteExpiredLockedOutputs/ListLockedOutputs), wtxmgr/unconfirmed.go (insertMemPoolTx, removeDoubleSpends, removeConflict, UnminedTxs), wtxmgr/query.go (minedTxDetails, unminedTxDetails, TxDetails, RangeTransactions), wtxmgr/db.go (isLockedOutput, lockOutput, unlockOutput, credit/debit iterators, blockIterator next/prev, unspendRawCredit, value/fetch helpers), wtxmgr/kahnsort.go (makeGraph, graphRoots, DependencySort), wtxmgr/tx.go Store.Rollback/Store.Balance third pass, wtxmgr/unconfirmed.go insertMemPoolTx"),
 "N2": ("waddrmgr (root module: `go test ./waddrmgr/...`)", "waddrmgr/manager.go (lock, Lock, Unlock, ChangePassphrase, ConvertToWatchingOnly, selectCryptoKey, Create, createManagerKeyScope, deriveCoinTypeKey, deriveAccountKey), waddrmgr/scoped_manager.go (loadAccountInfo, deriveKey, nextAddresses, extendAddresses, newAccount, ImportPrivateKey, importPublicKey, importScriptAddress, RenameAccount, MarkUsed, DeriveFromKeyPathCache), waddrmgr/address.go (managedAddress lock/unlock/PrivKey, script address Script(), newManagedAddress*), waddrmgr/db.go (put*/serialize*/deletePrivateKeys/PutSyncedTo/putChainedAddress), waddrmgr/sync.go, plus Manager.Encrypt/Decrypt, keyToManaged, newAccount/newAccountWatchingOnly"),
 "N3": ("wallet (root module: `go test ./wallet/...`, takes ~30s)", "wallet/wallet.go (syncWithChain, recovery, recoverScopedAddresses, expandScopeHorizons, extendFoundAddresses, txCreator, NewAddress/NewChangeAddress/CurrentAddress/newAddress, resendUnminedTxs, reliablyPublishTransaction, publishTransaction, OpenWithRetry, walletLocker), wallet/createtx.go (txToOutputs, findEligibleOutputs, addrMgrWithChangeSource, validateMsgTx), wallet/chainntfns.go (handleChainNotifications, connectBlock, disconnectBlock), wallet/recovery.go (Resurrect), wallet/psbt.go (FundPsbt), wallet/import.go (ImportAccountDryRun, importAccount), wallet/createtx.go makeInputSource/constantInputSource"),
 "N4": ("walletdb (own module: `cd walletdb && go test ./...`), snacl and chain (root module: `go test ./snacl/... ./chain/... -skip TestBitcoindEvents`)", "walletdb/bdb/db.go (convertErr, transaction/bucket/cursor adapters, db.Update, db.View, db.Batch), walletdb/interface.go (View/Update helpers), walletdb/migration/manager.go (GetLatestVersion, VersionsToApply, upgrade, Upgrade), snacl/snacl.go (Encrypt, Decrypt, DeriveKey, deriveKey, Marshal, Unmarshal), chain/queue.go (ConcurrentQueue.Start/Stop), chain/block_filterer.go (FilterTx, FilterOutputAddrs), chain/btcd.go + chain/neutrino.go (MapRPCErr, handler notification queues), chain/errors.go (error tables: only reorder/regroup entries or comments, never change a key or value), walletdb/bdb/db.go bucket.Get/cursor methods"),
 "N5": ("wallet/txauthor, wallet/txsizes, wallet/txrules (each its own module: `cd wallet/txauthor && go test ./...` etc.)", "wallet/txauthor/author.go (NewUnsignedTransaction, AddAllInputScripts), wallet/txsizes/size.go (EstimateVirtualSize, EstimateSerializeSize, GetMinInputVirtualSize, SumOutputSerializeSizes), wallet/txrules/rules.go (FeeForSerializeSize, IsDustOutput, CheckOutput)"),
}
mod, funcs = AREAS[area]
print(f"""You are helping test a static-analysis effort for the Go project btcsuite/btcwallet. Your job is the OPPOSITE of sabotage: produce FIVE independent, realistic, strictly BEHAVIOUR-PRESERVING refactorings of existing code, of the kind a maintainer would merge in a clean-up PR. They are used to check that analysis tools do not raise false alarms on harmless edits. Work ONLY inside your scratch git worktree {wt} (a checkout of the repository). Do NOT touch /repo or /verif and do not read anything under /verif.

## Where
Area: {mod}
Refactor code in these functions (spread your five refactorings over different functions/files of this list): {funcs}

## What counts
Each refactoring must keep the observable behaviour EXACTLY the same for all inputs, states, error paths and interleavings (same database writes in the same order, same errors returned/wrapped the same way, same locking, same log-independent results). Typical shapes - use a different one for each of the five:
- extract a block into a well-named helper function (or inline a small helper);
- rename local variables / reorder independent declarations; replace `var x T; x = f()` by `x := f()`;
- convert an if/else-if chain to a switch (or the reverse); invert a condition with an early return / continue;
- change a loop form without changing iteration order or coverage (range over slice <-> index loop; hoist an invariant out of a loop);
- replace a manual Lock/Unlock pair by Lock + defer Unlock where the critical section provably stays the same (or split a function in two while keeping the same lock span);
- combine two sequential error checks, introduce a named intermediate variable, replace a closure by a named method value, move a constant expression into a named constant.
Do NOT: change any arithmetic or comparison semantics, drop or add checks, change which errors are returned, change the order of database operations, change lock scope, or touch test files. If in doubt whether something is behaviour-preserving, do not do it.

## Practical notes
- No network. For every shell command: `export GOFLAGS=-mod=mod GOPROXY=off GOSUMDB=off GOTOOLCHAIN=local`.
- The repository is SIX Go modules (root, wtxmgr, walletdb, wallet/txauthor, wallet/txrules, wallet/txsizes); the root module links the module-cache copies of the five sub-modules, so test a sub-module from inside its own directory.
- After each refactoring run `go build ./...`, `go vet` of the touched package and the existing tests of the touched module; they must pass. (`chain`'s TestBitcoindEvents fails on the unmodified tree too: no bitcoind binary; skip it.)

## Deliverables (write into {wt}/REFACTOR/)
For k in 1..5: `{wt}/REFACTOR/k/patch.diff` = `git diff` of that ONE refactoring against the unmodified tree (each patch must apply on its own with `git apply` from the repository root), and `{wt}/REFACTOR/k/README.md` (which function, which shape, why behaviour is unchanged, what you ran). Produce each patch from a clean tree (git checkout -- . between them). Leave tracked files UNMODIFIED at the end. Do NOT use `git stash` (the stash is shared between worktrees of other workers): keep work in patch files and use `git apply` / `git apply -R` / `git checkout -- .`. Finish with a short report listing the five refactorings.""")
