#!/bin/bash
# validates MANIFEST.json and every evidence file against the schemas
python3-vt - <<'PY'
import json,jsonschema,glob
jsonschema.validate(json.load(open('/verif/MANIFEST.json')),json.load(open('/root/.vp/MANIFEST.schema.json')))
print('manifest ok')
s=json.load(open('/root/.vp/EVIDENCE.schema.json'))
for f in sorted(glob.glob('/verif/evidence/C*.json')):
    jsonschema.validate(json.load(open(f)),s); print('ok',f)
PY
