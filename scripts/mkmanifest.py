#!/usr/bin/env python3
"""Generates /verif/MANIFEST.json from the table below. Keep in sync with DESIGN.md."""
import json, os, sys
HERE = os.path.dirname(os.path.dirname(os.path.abspath(__file__)))

# id -> (technique, level text, level note, design ref)
CLAIMED = {}
NA = {}

def claim(pid, technique, text, note, ref):
    CLAIMED[pid] = (technique, text, note, ref)

def na(pid, reason):
    NA[pid] = reason

exec(open(os.path.join(HERE, "scripts", "claims.py")).read())

checks = []
for pid in sorted(CLAIMED):
    technique, text, note, ref = CLAIMED[pid]
    checks.append({
        "property_id": pid,
        "quick_cmd": f"./bin/vcheck -property {pid} -tier quick",
        "thorough_cmd": f"./bin/vcheck -property {pid} -tier thorough",
        "evidence_file": f"/verif/evidence/{pid}.json",
        "replay_cmd_template": "./bin/vcheck -explain {path}",
        "engine": "vcheck",
        "level_claimed": {"category": "other", "text": text, "design_ref": ref},
        "level_note": note,
        "technique": technique,
    })
m = {
    "version": 1,
    "setup_cmd": "cd /verif/checker && GOFLAGS=-mod=mod GOPROXY=off GOSUMDB=off GOTOOLCHAIN=local go build -o /verif/bin/vcheck .",
    "hooks": {
        "guard": "verif",
        "enable": "n/a - static analysis needs no source hooks; no guarded code exists in /repo",
        "baseline_off_cmd": "/verif/scripts/baseline.sh",
        "source_commits": [],
        "add_only": True,
    },
    "engines": [{
        "name": "vcheck",
        "path": "/verif/checker",
        "serves_properties": sorted(CLAIMED),
        "kind_free_text": "repository-specific static analyser (go/packages + go/ssa + VTA call graph, x/tools v0.29.0): per-property tables of structural rules over path/guard/provenance/lockset/error-discipline primitives; analyses all six btcwallet modules from /repo's working tree in one program on every run",
    }],
    "checks": checks,
    "notes": "All checks are static (no wallet code is executed). Each claimed property is claimed for a named structural clause only (level 'other'); DESIGN.md states per property what is and is not decided. fix: commits in /repo and open findings are listed in /verif/known_findings.json.",
    "not_applicable": [{"property_id": k, "reason": v} for k, v in sorted(NA.items())],
}
json.dump(m, open(os.path.join(HERE, "MANIFEST.json"), "w"), indent=1)
print("claimed:", sorted(CLAIMED), "n/a:", sorted(NA))
