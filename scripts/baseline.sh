#!/bin/bash
# Runs the repository's pinned test suite (guard off: no build tags) and
# compares the set of passing tests with /root/.vp/BASELINE.json stable_pass.
# exit 0 iff every stable test still passes.
export GOFLAGS=-mod=mod GOPROXY=off GOSUMDB=off GOTOOLCHAIN=local
REPO=${VERIF_REPO:-/repo}
OUT=$(mktemp)
trap 'rm -f $OUT' EXIT
for m in . ./wallet/txauthor ./wallet/txrules ./wallet/txsizes ./walletdb ./wtxmgr; do
  (cd $REPO/$m && go test -mod=mod -json -vet=off -count=1 -timeout 25m ./... ) >> $OUT 2>/dev/null
done
python3 - "$OUT" <<'PY'
import json,sys
passed=set(); failed=set()
for l in open(sys.argv[1]):
    try: e=json.loads(l)
    except Exception: continue
    if e.get('Test') and e.get('Action') in('pass','fail'):
        k=e['Package']+'::'+e['Test']
        (passed if e['Action']=='pass' else failed).add(k)
base=set(json.load(open('/root/.vp/BASELINE.json'))['stable_pass'])
missing=sorted(base-passed)
print(f"baseline: {len(base)} stable tests, {len(base&passed)} pass now, {len(missing)} missing/failing")
for m in missing[:20]: print("  NOT PASSING:",m)
sys.exit(1 if missing else 0)
PY
