#!/usr/bin/env python3
"""Prints the prompt given to a mutation sub-agent for one property: the text of the
property and a scratch worktree, nothing from /verif's machinery."""
import json,sys
pid=sys.argv[1]
known=json.load(open('/verif/scripts/known_mutations.json')).get(pid,[])
avoid=""
if known:
    avoid="\n## Already known - do NOT repeat\nEarlier rounds already produced mutations at these sites/mechanisms. Do not reuse them or close variants; find DIFFERENT functions, clauses of the property, or mechanisms (prefer clauses of the statement that the list below does not touch):\n"+"\n".join("- "+k for k in known)+"\n"
wt=sys.argv[2] if len(sys.argv)>2 else f"/tmp/wt-{pid}"
for l in open('/verif/properties.jsonl'):
    p=json.loads(l)
    if p['id']==pid: break
a=p['anchors']
mech="\n".join(f"  - {m['name']} ({m['where']})" for m in a['mechanism'])
state="\n".join(f"  - {s['name']}: {s['meaning']} ({s['where']})" for s in a.get('state',[]))
print(f"""You are helping test a verification effort for the Go project btcsuite/btcwallet (a Bitcoin HD wallet daemon). Your job is to act as a careful saboteur: produce TWO independent, realistic code changes ("mutations") to btcwallet, each of which BREAKS the semantic property below while the code still compiles and the existing test suite still passes. Work ONLY inside your own scratch git worktree: {wt} (a checkout of the repository). Do NOT touch /repo or /verif, and do not read anything under /verif.

## The property ({pid}: {p['title']})
Statement: {p['statement']}
Quantified: {p['quantifier']['text']}
Why the existing tests cannot settle it: {p['why_tests_cant']}
Files it is anchored in: {', '.join(a['files'])}
State involved:
{state}
Mechanisms meant to make it hold:
{mech}
Observable at: {', '.join(a.get('observe_at') or [])}

{avoid}
## What to produce
Two different mutations (A and B) using different mechanisms/sites (not two variants of the same edit). Each must:
1. be a small, realistic edit a developer could plausibly make (a refactor slip, a dropped check, a wrong variable/key, a reordered statement, an off-by-one, a lock dropped at one site, an error no longer propagated, ...) — NOT a blatant sabotage like deleting a whole function body;
2. still compile (`go build ./...` and `go vet` of the touched package) and keep the EXISTING tests of the touched module passing (run them);
3. break the property in a way that needs something specific to manifest — a particular interleaving, a fault/crash at a particular point, a multi-step sequence of operations, an unusual input/boundary value, or two cooperating sites that each look fine alone — NOT something ordinary use would expose at once;
4. come with a demonstration: a Go test (or small program) that FAILS with the mutation applied and PASSES on the unmodified code. Put the demo test in the package it tests as a new file named `zz_mut_<A|B>_test.go` (it may use unexported identifiers). The demo need not be elegant; it must be deterministic or near-deterministic.

## Practical notes about this sandbox
- No network. For every shell command: `export GOFLAGS=-mod=mod GOPROXY=off GOSUMDB=off GOTOOLCHAIN=local`.
- The repository is SIX Go modules: the root module plus wtxmgr, walletdb, wallet/txauthor, wallet/txrules, wallet/txsizes (each has its own go.mod). The root go.mod has NO replace directives, so code in the root module (wallet/, waddrmgr/, chain/, ...) links the module-cache copies of those five sub-modules, not the worktree's. Therefore: a mutation inside a sub-module (e.g. wtxmgr/) must be demonstrated by a test inside that same sub-module (run `cd wtxmgr && go test ./...`), and a mutation in the root module by a test in the root module (`go test ./wallet/... ./waddrmgr/...` etc.).
- Existing tests to keep green: for the root module `go test -vet=off -count=1 ./...` from the worktree root (takes ~40s); for a sub-module, `go test -vet=off -count=1 ./...` inside its directory.
- Read the code first; prefer mutations in the files listed above.

## Deliverables (write them into {wt}/MUTATION/)
For each mutation X in {{A,B}}:
- `{wt}/MUTATION/X/patch.diff`: output of `git diff` for the production-code change ONLY (no test files), applicable with `git apply` from the repository root;
- `{wt}/MUTATION/X/zz_mut_X_test.go`: the demo test file, plus `{wt}/MUTATION/X/where.txt` containing the repo-relative directory where the test file must be placed and the exact `go test` command (with -run) to run it;
- `{wt}/MUTATION/X/README.md`: which clause of the property it breaks, what is needed for it to manifest, and what you ran (commands + observed pass/fail with and without the patch).
Do NOT use `git stash` (the stash is shared between worktrees of other workers); keep your work in patch files and use `git apply` / `git apply -R` / `git checkout -- .`. Keep scratch files inside your worktree, not in /tmp directly. When done, leave the worktree's tracked files UNMODIFIED (git checkout -- . ; remove the demo test files from the package dirs — the copies under MUTATION/ are what counts). Finish with a brief report: for A and B one paragraph each (file/function changed, how it breaks the property, how the demo shows it). If you could only produce one valid mutation, say so. BASELINE ANOMALIES: if, while reading or probing the UNMODIFIED code, you notice behaviour that already contradicts the property statement (a genuine bug in the unmodified tree), describe it at the end of your report with the exact call sequence / input that shows it (do not use it as one of your mutations).""")
