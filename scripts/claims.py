# Table of claimed / not-claimed properties (read by mkmanifest.py).
STATIC_BASE = "Trusted base: Go type checker and go/ssa (x/tools v0.29.0); call graph = static callees + VTA, assumed to over-approximate real calls (no reflection/unsafe/cgo in anchored packages); path rules are path-insensitive to data (infeasible paths are considered). bbolt, btcd and x/crypto are trusted. Decides a named structural clause only, not the behavioural property as a whole."

CL = {
 "C01": ("guard-dominance + sibling agreement over the five spendability passes, canonical linear form of the confirmation/maturity comparison, who-may-write and co-mutation (unspent index vs balance counter) checks, loop-completeness, on SSA/CFG",
         "For all paths of all five balance/UTXO passes: both exclusion filters guard the accumulation, the first pass subtracts once; unspent-index editors also write the balance counter; only wtxmgr writes its namespace; process-all loops have no early exit; conflict removal is transitive. Necessary conditions of the ledger equation; the equation over histories is NOT decided."),
 "C02": ("must-pass-through / must-not-pass path rules on the SSA CFG of insertMinedTx, removeConflict, removeDoubleSpends, rollback; per-iteration must-pass and loop-completeness; call-graph reachability",
         "For all paths: confirmation runs double-spend removal; conflict removal recurses over every output and every spender; rollback re-queues non-coinbase records/inputs/credits, never coinbases, deletes every block record; loops are complete. Necessary steps of the convergence mechanism; equality of final states is NOT decided."),
 "C09": ("must-hold lockset analysis propagated over all caller chains (static + VTA call graph) for every address-issuing database transaction; closure-context (OnCommit) and who-may-call checks",
         "For every call chain in the program, derive+commit+callback of every address-issuing walletdb.Update happens under one common Wallet mutex; index mirrors move only in the OnCommit callback under the scoped manager's lock. This is the structural closure of the hazard the property names; index arithmetic and recovery's Extend* path are NOT decided."),
 "C10": ("error-discipline dataflow: whole-program fixpoint of database-write-error carriers + per-call-site CFG path check (dropped / swallowed errors); memory-after-disk ordering",
         "Decides, for every call site and path in six packages, that no database-write error is dropped or turned into success, and that manager mirrors are stored after the disk write. Necessary structural clause of C10 (the one its rationale names); post-rollback state equality and retry equivalence are NOT decided."),
 "C12": ("guard-dominance on lease tests in all five passes, normalised time-comparison agreement across the three expiry sites, ownership-guard edge cuts, per-input must-pass for lease release, who-may-write the lease bucket, writer/reader layout agreement",
         "For all paths: leased outputs are skipped/subtracted once in every pass; all expiry tests are the same relation and each site acts on the right side; ownership guards dominate the writes; confirmed spends release every input's lease. Time-dependent behaviour over histories is NOT decided."),
}
for pid,(tech,text) in CL.items():
    claim(pid, tech, text, STATIC_BASE, "DESIGN.md section 4, "+pid)

_todo = "check not built yet in this round (planned: see DESIGN.md section 4); listed here so that nothing is claimed without a working check"
for pid in ["C03","C04","C05","C06","C07","C08","C11","C13","C15","C16","C17","C18","C19","C20"]:
    if pid not in CL: na(pid, _todo)
na("C14", "topological-sort correctness over all DAGs and map orders is an algorithmic invariant over runtime graphs; no clause of it is visible in the shape of the code other than the algorithm restated line by line (a frozen-fragment rule). The plumbing clause (rebroadcast list is the sort's output, iterated in order) is decided under C20-R4.")
