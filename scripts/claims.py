# Table of claimed / not-claimed properties (read by mkmanifest.py).
STATIC_BASE = "Trusted base: Go type checker and go/ssa (x/tools v0.29.0); call graph = static callees + VTA, assumed to over-approximate real calls (no reflection/unsafe/cgo in anchored packages); path rules are path-insensitive to data. bbolt, btcd and x/crypto are trusted."

claim("C10", "error-discipline dataflow: whole-program fixpoint of database-write-error carriers + per-call-site CFG path check (dropped / swallowed errors); memory-after-disk ordering",
      "Decides, for every call site and path in six packages, that no database-write error is dropped or turned into success, and that manager mirrors are stored after the disk write. Necessary structural clause of C10 (the one its rationale names); post-rollback state equality and retry equivalence are NOT decided.",
      STATIC_BASE, "DESIGN.md section 4, C10")

_todo = "check not built yet in this round (planned: see DESIGN.md section 4); listed here so that nothing is claimed without a working check"
for pid in ["C01","C02","C03","C04","C05","C06","C07","C08","C09","C11","C12","C13","C15","C16","C17","C18","C19","C20"]:
    na(pid, _todo)
na("C14", "topological-sort correctness over all DAGs and map orders is an algorithmic invariant over runtime graphs; no clause of it is visible in the shape of the code other than the algorithm restated line by line (a frozen-fragment rule). The plumbing clause (rebroadcast list is the sort's output, iterated in order) is decided under C20-R4.")
