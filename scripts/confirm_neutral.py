#!/usr/bin/env python3
"""confirm_neutral.py <agent-worktree> <area> : re-check each behaviour-preserving refactoring (applies, builds, the touched
module's existing tests pass) in a fresh worktree and store it under /verif/neutral/<area>-<k>/."""
import json, os, shutil, subprocess, sys, glob
wt, area = sys.argv[1:3]
ENV = dict(os.environ, GOFLAGS="-mod=mod", GOPROXY="off", GOSUMDB="off", GOTOOLCHAIN="local")
SUB = ["wtxmgr", "walletdb", "wallet/txauthor", "wallet/txrules", "wallet/txsizes"]
for d in sorted(glob.glob(f"{wt}/REFACTOR/*/")):
    k = os.path.basename(d.rstrip("/"))
    patch = d + "patch.diff"
    if not os.path.exists(patch): continue
    cf = f"/tmp/cn-{area}-{k}"
    subprocess.run(["git", "-C", "/repo", "worktree", "remove", "--force", cf], capture_output=True)
    subprocess.check_call(["git", "-C", "/repo", "worktree", "add", "-q", "--detach", cf, "HEAD"])
    try:
        ap = subprocess.run(["git", "apply", "--whitespace=nowarn", patch], cwd=cf, capture_output=True, text=True)
        if ap.returncode != 0:
            print(f"{area}-{k}: PATCH DOES NOT APPLY {ap.stderr[:200]}"); continue
        touched = subprocess.run(["git", "diff", "--name-only"], cwd=cf, capture_output=True, text=True).stdout.split()
        mods = set()
        for f in touched:
            m = "."
            for s in SUB:
                if f.startswith(s + "/"): m = s
            mods.add(m)
        ok = True; log = []
        for m in mods:
            if m == ".":
                pk = sorted(set("./" + os.path.dirname(f) + "/..." for f in touched if f.endswith(".go") and not any(f.startswith(s + "/") for s in SUB)))
                cmd = "go build ./... && go test -vet=off -count=1 -skip TestBitcoindEvents " + " ".join(pk)
            else:
                cmd = "go build ./... && go test -vet=off -count=1 ./..."
            r = subprocess.run(cmd, shell=True, cwd=os.path.join(cf, m), env=ENV, capture_output=True, text=True)
            log.append({"module": m, "cmd": cmd, "exit": r.returncode, "tail": (r.stdout + r.stderr)[-300:]})
            ok = ok and r.returncode == 0
        print(f"{area}-{k}: touched={touched} tests={'pass' if ok else 'FAIL'}")
        if not ok:
            for l in log: print("   ", json.dumps(l)[:500])
            continue
        out = f"/verif/neutral/{area}-{k}"
        os.makedirs(out, exist_ok=True)
        shutil.copy(patch, out)
        if os.path.exists(d + "README.md"): shutil.copy(d + "README.md", out)
        json.dump({"kind": "behaviour-preserving refactoring (independent sub-agent)", "area": area, "touched": touched, "ran": log}, open(out + "/meta.json", "w"), indent=1)
    finally:
        subprocess.run(["git", "-C", "/repo", "worktree", "remove", "--force", cf], capture_output=True)
